"""Registry of properties -> parts (jobs) for the /verif driver."""

BINS = {
    "verifh": "./internal/verifh/",
    "bastion": "./internal/feeder/bastion/",
    "omni": "./omniwitness/",
}

HIST_ASSUME = [
    "Ed25519 unforgeability and SHA-256 collision resistance (generators cannot forge)",
    "harness reference RFC 6962 tree/verifier (self-tested against x/mod tlog and transparency-dev/merkle)",
]

PROPS = {
    "C01": {
        "level": "exploration",
        "level_text": "Generated-history search (rapid state-machine style cases over a forking log universe, mem+SQLite) against a ground-truth oracle on leaf lists plus an independent strict RFC 6962 verifier; finds split-view acceptance for the explored sizes/shapes, cannot show absence.",
        "level_note": "Trusted: harness Merkle reference (self-tested against x/mod tlog), Ed25519/SHA-256; sizes biased to 0..40 with jumps to 4096.",
        "technique": "property-based testing: generated operation histories vs ground-truth prefix oracle (rapid, shrinking to JSON replay)",
        "assumptions": HIST_ASSUME,
        "parts": {
            "hist": {"bin": "verifh", "run": "TestC01", "checks": {"quick": 400, "thorough": 48000}, "shards": {"quick": 4, "thorough": 16}},
        },
    },
    "C09": {
        "level": "exploration",
        "level_text": "Differential check of every Update verdict against an executable reference rule list (written from c2sp tlog-witness + the property text) whose proof verdict comes from an independent strict RFC 6962 verifier: exhaustive cube of (stored,submitted,old) sizes x root x 14 proof shapes, random sizes to 2^63/old to 2^64-1, and generated histories; exhaustive only inside the cube.",
        "level_note": "Trusted: reference model + reference verifier (cross-checked per cell against ground truth on leaves and self-tested against x/mod tlog.CheckTree); first use with old!=0/non-empty proof, stored 0 < submitted, odd-length roots are outside the claim as the property states.",
        "technique": "property-based differential testing vs reference model; exhaustive small-scope enumeration + rapid random cases",
        "assumptions": HIST_ASSUME,
        "parts": {
            "cube": {"bin": "verifh", "run": "TestC09Cube", "kind": "plain", "shards": {"quick": 8, "thorough": 16}},
            "rand": {"bin": "verifh", "run": "TestC09Rand", "checks": {"quick": 2000, "thorough": 200000}, "shards": {"quick": 2, "thorough": 16}},
            "hist": {"bin": "verifh", "run": "TestC09Hist", "checks": {"quick": 300, "thorough": 32000}, "shards": {"quick": 2, "thorough": 16}},
        },
    },
    "C03": {
        "level": "exploration",
        "level_text": "Generated histories (2-3 logs, mem+SQLite, all refusal classes incl. injected storage failures at WriteOps/GetLatest/Set/Close) with a byte-equality oracle over the whole visible state (every log's checkpoint + log list) before/after each refused request and over the bytes returned with the refusal.",
        "level_note": "Visible state = what GetCheckpoint/GetLogs return; storage faults are injected at the LogStatePersistence interface without applying the failed call's effect.",
        "technique": "property-based testing: generated histories + fault injection, before/after state-equality invariant (rapid)",
        "assumptions": HIST_ASSUME,
        "parts": {
            "hist": {"bin": "verifh", "run": "TestC03", "checks": {"quick": 400, "thorough": 40000}, "shards": {"quick": 4, "thorough": 16}},
        },
    },
    "C20": {
        "level": "exploration",
        "level_text": "Generated mixed-verdict histories with a recording metric factory installed before the first witness exists; after every request the delta of every witness_update_* counter and label is compared with what the observed verdict allows (and nothing else may move).",
        "level_note": "Verdict taken from the observed Update result (its agreement with the protocol rules is C09's business); counters are process-wide so each shard is one process and runs its cases sequentially.",
        "technique": "property-based testing: generated histories, per-step counter-delta oracle (rapid)",
        "assumptions": HIST_ASSUME,
        "parts": {
            "hist": {"bin": "verifh", "run": "TestC20", "checks": {"quick": 400, "thorough": 40000}, "shards": {"quick": 4, "thorough": 16}},
        },
    },
}

# properties not (yet) claimed: id -> reason
NOT_APPLICABLE = {pid: "check not built yet in this round (work in progress; see DESIGN.md)" for pid in
                  ["C%02d" % i for i in range(1, 21)] if pid not in PROPS}

HOOK_COMMITS = []
