"""Registry of properties -> parts (jobs) for the /verif driver."""

BINS = {
    "verifh": "./internal/verifh/",
    "bastion": "./internal/feeder/bastion/",
    "omni": "./omniwitness/",
    "feedbastion": "./cmd/feedbastion/",
}

# programs of the repository that some checks run as real child processes
PROGS = {
    "omnibin": "./cmd/omniwitness/",
}

HIST_ASSUME = [
    "Ed25519 unforgeability and SHA-256 collision resistance (generators cannot forge)",
    "harness reference RFC 6962 tree/verifier (self-tested against x/mod tlog and transparency-dev/merkle)",
]

PROPS = {
    "C01": {
        "level": "exploration",
        "level_text": "Generated-history search (rapid state-machine style cases over a forking log universe, mem+SQLite) against a ground-truth oracle on leaf lists plus an independent strict RFC 6962 verifier; finds split-view acceptance for the explored sizes/shapes, cannot show absence.",
        "level_note": "Trusted: harness Merkle reference (self-tested against x/mod tlog), Ed25519/SHA-256; sizes biased to 0..40 with jumps to 4096.",
        "technique": "property-based testing: generated operation histories vs ground-truth prefix oracle (rapid, shrinking to JSON replay)",
        "assumptions": HIST_ASSUME,
        "parts": {
            "hist": {"bin": "verifh", "run": "TestC01", "checks": {"quick": 400, "thorough": 320000}, "shards": {"quick": 4, "thorough": 16}},
        },
    },
    "C09": {
        "level": "exploration",
        "level_text": "Differential check of every Update verdict against an executable reference rule list (written from c2sp tlog-witness + the property text) whose proof verdict comes from an independent strict RFC 6962 verifier: exhaustive cube of (stored,submitted,old) sizes x root x 14 proof shapes, random sizes to 2^63/old to 2^64-1, and generated histories; exhaustive only inside the cube.",
        "level_note": "Trusted: reference model + reference verifier (cross-checked per cell against ground truth on leaves and self-tested against x/mod tlog.CheckTree); first use with old!=0/non-empty proof, stored 0 < submitted, odd-length roots are outside the claim as the property states.",
        "technique": "property-based differential testing vs reference model; exhaustive small-scope enumeration + rapid random cases",
        "assumptions": HIST_ASSUME,
        "parts": {
            "selfref": {"bin": "verifh", "run": "TestSelfRef", "checks": {"quick": 1500, "thorough": 200000}, "shards": {"quick": 1, "thorough": 8}},
            "cube": {"bin": "verifh", "run": "TestC09Cube", "kind": "plain", "shards": {"quick": 8, "thorough": 16}},
            "rand": {"bin": "verifh", "run": "TestC09Rand", "checks": {"quick": 2000, "thorough": 2000000}, "shards": {"quick": 2, "thorough": 16}},
            "hist": {"bin": "verifh", "run": "TestC09Hist", "checks": {"quick": 300, "thorough": 240000}, "shards": {"quick": 2, "thorough": 16}},
        },
    },
    "C03": {
        "level": "exploration",
        "level_text": "Generated histories (2-3 logs, mem+SQLite, all refusal classes incl. injected storage failures at WriteOps/GetLatest/Set/Close) with a byte-equality oracle over the whole visible state (every log's checkpoint + log list) before/after each refused request and over the bytes returned with the refusal.",
        "level_note": "Visible state = what GetCheckpoint/GetLogs return; storage faults are injected at the LogStatePersistence interface without applying the failed call's effect.",
        "technique": "property-based testing: generated histories + fault injection, before/after state-equality invariant (rapid)",
        "assumptions": HIST_ASSUME,
        "parts": {
            "hist": {"bin": "verifh", "run": "TestC03", "checks": {"quick": 400, "thorough": 320000}, "shards": {"quick": 4, "thorough": 16}},
        },
    },
    "C20": {
        "level": "exploration",
        "level_text": "Generated mixed-verdict histories with a recording metric factory installed before the first witness exists; after every request the delta of every witness_update_* counter and label is compared with what the observed verdict allows (and nothing else may move); every increment is also forwarded to the repository's own Prometheus binding (monitoring/prometheus, prefix omniwitness_ as cmd/omniwitness configures it) and the same per-step delta oracle is applied to what the default Prometheus registry gathers, i.e. to what an operator scrapes. Part 'race' runs every interleaving of every two-request scenario under the C05 scheduler on both stores and compares the movement of the counters during the concurrent phase with the outcomes.",
        "level_note": "Verdict taken from the observed Update result (its agreement with the protocol rules is C09's business); counters are process-wide so each shard is one process and runs its cases sequentially.",
        "technique": "property-based testing: generated histories, per-step counter-delta oracle (rapid)",
        "assumptions": HIST_ASSUME,
        "parts": {
            "hist": {"bin": "verifh", "run": "TestC20", "checks": {"quick": 400, "thorough": 320000}, "shards": {"quick": 4, "thorough": 16}},
            "race": {"bin": "verifh", "run": "TestC20Race", "kind": "plain"},
        },
    },
    "C02": {
        "level": "exploration",
        "level_text": "Generated witness configurations (1-5 logs, shared keys under different origins) and submissions (valid, bit/line/signature-block mutations, wrong key, same key under another name, wrong origin, cross-log replays, unknown IDs); the oracle is the implication 'accepted => the text is one the harness signed with exactly that log's key and it starts with that log's origin', plus the construction-known refusals.",
        "level_note": "The harness records every text it signs per (key material, key name); forging is outside what a generator can produce.",
        "technique": "property-based testing: mutation-based generated inputs x generated configurations, authenticity implication oracle (rapid)",
        "assumptions": HIST_ASSUME,
        "parts": {
            "hist": {"bin": "verifh", "run": "TestC02", "checks": {"quick": 600, "thorough": 400000}, "shards": {"quick": 4, "thorough": 16}},
        },
    },
    "C04": {
        "level": "exploration",
        "level_text": "Generated accepted updates of all three kinds over decorated notes, 5 witness key sets and both storages; the harness's own signature-line scanner and Ed25519/cosignature-v1 verifier check text equality, the log line, exactly one valid line per witness key, the timestamp window of the call, and read-after-write equality; refreshes of a state planted with a day-old cosignature expose short-circuits. Part 'pool': read-after-write on a file-backed SQLite store with 2 and 4 pooled connections and a read of the same log slipped into the accepted update's storage-call window.",
        "level_note": "Reads the wall clock (second granularity, inclusive window) - inherent to the freshness clause.",
        "technique": "property-based testing: generated histories and note shapes, independent signature-census oracle (rapid)",
        "assumptions": HIST_ASSUME,
        "parts": {
            "hist": {"bin": "verifh", "run": "TestC04", "checks": {"quick": 500, "thorough": 320000}, "shards": {"quick": 4, "thorough": 16}},
            "pool": {"bin": "verifh", "run": "TestC04Pool", "kind": "plain"},
        },
    },
    "C08": {
        "level": "exploration",
        "level_text": "Generated prior histories of an honest log (refused forgeries, decorated notes up to the 100-line limit, stale witness lines, size-0 first checkpoint, 5 witness key sets) each followed by honest probes that must be accepted; all honest steps a->b inside 0..64 enumerated; sampled steps up to 2^40 (2^60) on a synthetic tree.",
        "level_note": "Honest log = every log-signed checkpoint lies on one branch; listed known findings (F2: stored size 0) are excluded by construction, counted, and re-probed.",
        "technique": "property-based testing: generated histories followed by a must-accept probe; exhaustive small size pairs (rapid + enumeration)",
        "assumptions": HIST_ASSUME,
        "parts": {
            "hist": {"bin": "verifh", "run": "TestC08Hist", "checks": {"quick": 500, "thorough": 320000}, "shards": {"quick": 4, "thorough": 16}},
            "pairs": {"bin": "verifh", "run": "TestC08Pairs", "kind": "plain", "shards": {"quick": 2, "thorough": 8}},
            "big": {"bin": "verifh", "run": "TestC08Big", "checks": {"quick": 300, "thorough": 200000}, "shards": {"quick": 1, "thorough": 16}},
            "known": {"bin": "verifh", "run": "TestC08Known", "kind": "plain"},
        },
    },
    "C16": {
        "level": "exploration",
        "level_text": "Generated histories over 2-4 logs on both storages; after every request the registered mux handlers and the bundled HTTP client (in-memory transport) are queried for every known ID, unknown and odd IDs and the log list, and compared byte for byte with the witness's state and the set of logs with an accepted update. On the SQL store the list and a held checkpoint are read again with a driver-level storage error injected under the read: whatever is answered 200 must still be exactly the truth, and a held log is never answered 'not found'. Part 'overlap' owns a three-actor schedule (a GET held after its storage read, an accepted update, a second GET issued after the update returned) on both stores: the second GET carries the update's bytes.",
        "level_note": "HTTP layer exercised through gorilla/mux + net/http/httptest, not over sockets (C14 covers the socket path).",
        "technique": "property-based testing: generated histories with a read-after-every-step oracle (rapid)",
        "assumptions": HIST_ASSUME,
        "parts": {
            "hist": {"bin": "verifh", "run": "TestC16", "checks": {"quick": 400, "thorough": 320000}, "shards": {"quick": 4, "thorough": 16}},
            "overlap": {"bin": "verifh", "run": "TestC16Overlap", "kind": "plain"},
        },
    },
    "C12": {
        "level": "exploration",
        "level_text": "Metamorphic isolation check: generated per-log histories over 2-5 logs (shared keys) are run interleaved and each alone on deterministic witnesses; every per-step verdict, returned bytes and final checkpoint must be identical, and no checkpoint of another origin is ever returned or stored for an ID. The identity half pushes generated configurations through the real YAML schema, AsLogMap and config.NewLog, and through the assembled service started by Main with a stub bastion (TLS1.3+h2 reverse connection), a stub distributor and the HTTP API, and demands one ID everywhere and refusal of duplicates by Main itself.",
        "level_note": "Isolation half uses the legacy (timestamp-free) signer so that bytes are comparable; identity half lives in the omniwitness package (in-package overlay test).",
        "technique": "property-based metamorphic testing (interleaved vs isolated histories) + generated configurations (rapid)",
        "assumptions": HIST_ASSUME,
        "parts": {
            "iso": {"bin": "verifh", "run": "TestC12Iso", "checks": {"quick": 300, "thorough": 200000}, "shards": {"quick": 4, "thorough": 16}},
            "id-static": {"bin": "omni", "run": "TestC12Static", "checks": {"quick": 2000, "thorough": 500000}, "shards": {"quick": 1, "thorough": 16}},
            "id-dup-main": {"bin": "omni", "run": "TestC12DupMain", "kind": "plain"},
            "id-main": {"bin": "omni", "run": "TestC12ViaMain", "checks": {"quick": 3, "thorough": 320}, "shards": {"quick": 1, "thorough": 16}, "shrinktime": "30s"},
        },
    },
    "C11": {
        "level": "exploration",
        "level_text": "Round-trip and differential testing of parseBody and Proof.Marshal/Unmarshal: generated triples written by two writers must parse back exactly; 21 classes of bodies malformed by construction must be refused with zero data; generated byte strings are compared with a strict reference parser written from the c2sp text; proofs of 0-64 hashes of 0-64 bytes round-trip in both directions. The real writer of cmd/feedbastion (bastionClient.Update, reached from an in-package overlay test) is round-tripped end to end: its requests go through a stub bastion into the exported FeedBastion endpoint and a recording witness must receive exactly the triple that was written. Native fuzzing of both parsers in the thorough tier.",
        "level_note": "Tolerance region where the code may be more lenient than the reference and the property makes no claim: CR characters, leading zeros or '+' on the number, lines longer than 4000 bytes.",
        "technique": "property-based round-trip + differential testing against a reference parser (rapid; go native fuzzing in thorough)",
        "assumptions": ["reference parser written from c2sp.org/tlog-witness add-checkpoint body grammar"],
        "parts": {
            "body": {"bin": "bastion", "run": "TestC11Body", "checks": {"quick": 6000, "thorough": 6000000}, "shards": {"quick": 4, "thorough": 16}},
            "proof": {"bin": "bastion", "run": "TestC11Proof", "checks": {"quick": 3000, "thorough": 3000000}, "shards": {"quick": 2, "thorough": 16}},
            "known": {"bin": "bastion", "run": "TestC11Known", "kind": "plain"},
            "writer": {"bin": "feedbastion", "run": "TestC11FeedbastionWriter", "checks": {"quick": 400, "thorough": 64000}, "shards": {"quick": 1, "thorough": 16}},
        },
    },
    "C10": {
        "level": "exploration",
        "level_text": "Generated request sequences through the real add-checkpoint handler (constructed exactly as FeedBastion constructs it, behind the 16 KiB MaxBytesHandler) with a real witness behind it; a reference model gives the expected status/Content-Type/body for every verdict class and malformed body, 200 bodies must verify under the witness's published cosignature key over the submitted text, state may change only on 200; separate burst test gives sound bounds for the rate limiter and shows limited requests are never processed. End-to-end variant over TLS1.3+h2 to a stub bastion in the thorough tier.",
        "level_note": "In-process part reaches the unexported handler from an in-package overlay test; Content-Type is asserted only where the protocol fixes it (stale 409).",
        "technique": "property-based model-based testing of an HTTP handler (rapid histories vs reference model)",
        "assumptions": HIST_ASSUME,
        "parts": {
            "seq": {"bin": "bastion", "run": "TestC10Seq", "checks": {"quick": 500, "thorough": 320000}, "shards": {"quick": 4, "thorough": 16}},
            "e2e": {"bin": "bastion", "run": "TestC10E2E", "checks": {"quick": 40, "thorough": 32000}, "shards": {"quick": 1, "thorough": 16}},
            "bigsizes": {"bin": "bastion", "run": "TestC10BigSizes", "kind": "plain"},
            "rate": {"bin": "bastion", "run": "TestC10Rate", "checks": {"quick": 150, "thorough": 8000}, "shards": {"quick": 1, "thorough": 8}},
            "known": {"bin": "bastion", "run": "TestC10Known", "kind": "plain"},
        },
    },
    "C13": {
        "level": "exploration",
        "level_text": "Feed cycles against a recording stub witness whose reported checkpoint changes between attempts: all 121 failure words of length <=4 over {get-latest, fetch-proof, update} enumerated, all (witness size, log size) pairs enumerated fault-free, never-clearing faults under a context deadline, unverifiable published checkpoints; the per-attempt argument/ordering contract is checked on the recorded calls. Generated (size, fork) cases run against the real witness through the in-package witnessAdapter, and the adapter itself is checked under injected storage read faults (an error must never look like no-checkpoint-yet).",
        "level_note": "The exponential back-off uses the real clock (no hook added), so failing cases run as concurrent batches; deadlines are generous and only used for the 'stops when its context ends' clause.",
        "technique": "exhaustive fault-sequence enumeration + property-based testing against a recording stub and the real witness (rapid)",
        "assumptions": HIST_ASSUME,
        "parts": {
            "words": {"bin": "omni", "run": "TestC13Words", "kind": "plain", "shards": {"quick": 1, "thorough": 4}},
            "never": {"bin": "omni", "run": "TestC13Never", "kind": "plain"},
            "sizes": {"bin": "omni", "run": "TestC13Sizes", "kind": "plain"},
            "adapter": {"bin": "omni", "run": "TestC13Adapter", "kind": "plain"},
            "real": {"bin": "omni", "run": "TestC13Real", "checks": {"quick": 2, "thorough": 64}, "shards": {"quick": 1, "thorough": 8}},
        },
    },
    "C15": {
        "level": "exploration",
        "level_text": "Generated sets of 1-6 logs x 17 witness-answer classes x 16 distributor-answer classes (incl. redirects that rewrite or preserve the method) against a stub witness and an in-memory stub distributor that records every first-hop request; exactly the verified checkpoints must arrive, byte-identical, at the path naming the log ID and witness key name, and the error accounting must match.",
        "level_note": "The distributor service is an http.RoundTripper stub; the witness verifier is the cosignature/v1 verifier as in production.",
        "technique": "property-based testing with recording stubs (rapid)",
        "assumptions": HIST_ASSUME[:1],
        "parts": {
            "dist": {"bin": "verifh", "run": "TestC15", "checks": {"quick": 3000, "thorough": 1200000}, "shards": {"quick": 4, "thorough": 16}},
        },
    },
    "C18": {
        "level": "exploration",
        "level_text": "Tile coordinates (dense 0..1100, every x%03d carry boundary to 10^9, random; hash and data tiles; widths 1..256) through the exported SumDB client compared with tlog.Tile.Path; all size pairs up to 1200 (thorough; 160 quick) plus sampled pairs to 2^20 fed by sumdb.FeedLog from a stub SumDB that only serves tiles of the published tree, the resulting proof checked by the independent RFC 6962 verifier and by a real witness; plus one periodic feeder followed through several growth steps into a real witness (state carried across cycles).",
        "level_note": "Stub SumDB serves tiles with x/mod tlog.ReadTileData over the harness's reference tree; reference = x/mod tlog for paths, harness verifier for proofs.",
        "technique": "property-based differential testing against the reference tlog implementation; exhaustive small size pairs",
        "assumptions": HIST_ASSUME,
        "parts": {
            "paths": {"bin": "verifh", "run": "TestC18Paths", "checks": {"quick": 5000, "thorough": 1000000}, "shards": {"quick": 1, "thorough": 16}},
            "pairs": {"bin": "verifh", "run": "TestC18Pairs", "kind": "plain", "shards": {"quick": 4, "thorough": 16}},
            "cycles": {"bin": "verifh", "run": "TestC18Cycles", "checks": {"quick": 40, "thorough": 16000}, "shards": {"quick": 2, "thorough": 16}},
            "big": {"bin": "verifh", "run": "TestC18Big", "checks": {"quick": 300, "thorough": 100000}, "shards": {"quick": 2, "thorough": 16}},
        },
    },
    "C17": {
        "level": "exploration",
        "level_text": "Finite and exhaustive: every entry of both shipped YAML files in the working tree is pushed through the functions Main uses (yaml schema, config.NewLog, AsLogMap, feeder enum) and one real feeder cycle against a network that records and refuses every request (URL well-formed, supported scheme, required query parameters, no panic); the real omniwitness.Main is started with each file and must come up; the same oracle is then run on 8 kinds of damaged copies per entry and must reject each, which shows it can fail. Each entry with a feeder is also fed for real (substitute key) from a stub serving a first checkpoint at the URL as written in the file; Main is started without and with polling (a request from every feeder entry's URL, a distributor question about every configured log).",
        "level_note": "The space is the fixed file, so generation is applied to the loader (config defects) rather than to the file.",
        "technique": "exhaustive enumeration of the shipped configuration + mutation-based sensitivity of the loader oracle",
        "assumptions": ["the working tree's omniwitness/logs.yaml and logs_test.yaml are what gets embedded"],
        "parts": {
            "shipped": {"bin": "omni", "run": "TestC17", "kind": "plain"},
        },
    },
    "C07": {
        "level": "fault_enumeration",
        "level_text": "Fault enumeration: for 5 three-request histories on both storages ALL single and ALL double fault masks over the interface-level call sites (WriteOps, GetLatest, Set, Close; plain and gRPC-coded) and SQL-driver call sites (begin, prepare, query, exec, stmtclose, commit-before-effect, rollback) are executed, plus generated longer histories with random masks; after every update: no write handle / pooled connection left checked out (deterministic leak detection), accepted => fault-free read-back equal, failed read => refused and unchanged, refusal => unchanged, and after the faults stop honest probes must be accepted. A watchdog turns a wedge into a report.",
        "level_note": "Faults fail a call before it takes effect (a failed commit leaves no open transaction, as SQLite/mattn do); Close/rollback/stmt-close are always forwarded so the injection itself leaks nothing. SQLite :memory: with a pool of one connection through a wrapping database/sql driver.",
        "technique": "exhaustive single/double fault-mask enumeration + property-based fault sequences (rapid) with invariant oracle",
        "assumptions": HIST_ASSUME,
        "parts": {
            "enum": {"bin": "verifh", "run": "TestC07Enum", "kind": "plain", "shards": {"quick": 8, "thorough": 16}},
            "hist": {"bin": "verifh", "run": "TestC07Hist", "checks": {"quick": 300, "thorough": 400000}, "shards": {"quick": 2, "thorough": 16}},
        },
    },
    "C06": {
        "level": "fault_enumeration",
        "level_text": "Crash-point enumeration: for generated histories on file-backed SQLite (pool of one connection) the serving child process SIGKILLs itself at EVERY database-driver call boundary (before and after each begin/prepare/query/row fetch/exec/statement close/commit/rollback, including table creation); a fresh process reopens the file with the plain driver; each log must hold the old or the new checkpoint, complete and validly cosigned, the log list must be exactly the logs holding a checkpoint, every acknowledged update must still be in force, and the restarted witness must refuse forks (three presentations), accept the honest continuation and really store it. Half of the histories contain a clean restart (requests split over two processes) before the crash points. Thorough adds SIGKILL from outside at drawn instants while the child loops. Part 'binary' runs the real cmd/omniwitness program (built from the tree; its database set-up in monolith.go included) on a SQLite file against stub logs, SIGKILLs it in the middle of an update (timed from the moment its feeder fetched the new checkpoint) or right after an acknowledged one, restarts it on the same file with the logs unreachable, and demands old-or-new, fully signed, nothing acknowledged lost, then catch-up.",
        "level_note": "SIGKILL keeps the OS page cache: this decides atomicity and acknowledge-after-commit ordering under process death, not durability under power loss. Instants inside SQLite's commit are only sampled (random-kill part).",
        "technique": "exhaustive crash-point injection at driver-call boundaries over rapid-generated histories (child processes), plus randomized kill instants",
        "assumptions": HIST_ASSUME + ["the OS keeps written pages of a killed process (no power loss)"],
        "parts": {
            "points": {"bin": "verifh", "run": "TestC06Points", "checks": {"quick": 8, "thorough": 1600}, "shards": {"quick": 1, "thorough": 16}, "shrinktime": "60s"},
            "random": {"bin": "verifh", "run": "TestC06Random", "checks": {"quick": 20, "thorough": 9600}, "shards": {"quick": 1, "thorough": 16}, "shrinktime": "20s"},
            "binary-fixed": {"bin": "omni", "run": "TestC06BinaryFixed", "prog": "omnibin", "kind": "plain"},
            "binary": {"bin": "omni", "run": "TestC06Binary", "prog": "omnibin", "checks": {"quick": 4, "thorough": 480}, "shards": {"quick": 2, "thorough": 16}, "shrinktime": "60s"},
        },
    },
    "C05": {
        "level": "exploration",
        "level_text": "Schedule exploration with a harness-owned scheduler: request goroutines on a real witness park before every storage call of an instrumented LogStatePersistence and exactly one is released at a time; ALL interleavings of every 2-request (quick) and 3-request (thorough) scenario on the in-memory store and on SQLite with the production one-connection pool are enumerated by DFS, 3/4-request and generated scenarios are sampled with rapid-drawn schedules; each history is checked by brute-force linearizability against a sequential reference witness (real-time order respected, storage error = permitted no-op only when overlapping another write to the same log) incl. the final state; deadlocks are reported. Thorough adds an unscheduled many-goroutine stress run built with -race with chain/monotonic-read/lost-update invariants.",
        "level_note": "Interleavings below storage-call granularity (Go memory model) are reached only by the -race stress run, which samples. The scheduler models the single SQLite connection (a request needing it is not offered while another holds a write handle); a 2 s no-park timeout only influences which schedule is explored, a no-progress state is reported as deadlock only after 10 s plus a 20 s confirmation wait.",
        "technique": "systematic schedule exploration (stateless DFS over storage-call interleavings) + rapid-sampled schedules with a linearizability oracle; -race stress",
        "assumptions": HIST_ASSUME,
        "parts": {
            "two": {"bin": "verifh", "run": "TestC05Two", "kind": "plain", "shards": {"quick": 8, "thorough": 12}},
            "three": {"bin": "verifh", "run": "TestC05Three", "kind": "plain", "shards": {"quick": 16, "thorough": 16}, "tiers": ["thorough"]},
            "sampled": {"bin": "verifh", "run": "TestC05Sampled", "checks": {"quick": 2000, "thorough": 320000}, "shards": {"quick": 4, "thorough": 16}},
            "stress": {"bin": "verifh", "run": "TestC05Stress", "kind": "plain", "race": True, "tiers": ["thorough"]},
            "stress-lite": {"bin": "verifh", "run": "TestC05Stress", "kind": "plain", "tiers": ["quick"]},
        },
    },
    "C14": {
        "level": "exploration",
        "level_text": "End-to-end: omniwitness.Main is started from a generated YAML configuration (sumdb-type and tiles-type logs served by in-process stub servers over loopback) with a real listener, polling enabled, in-memory or file-backed SQLite storage; rapid draws growth schedules over tile-boundary sizes, restarts on the same database and switches to forked histories; the served checkpoint must reach each published head fully cosigned and must stay on the witnessed history at a fork.",
        "level_note": "Only the feeder types that can be served from a generated tree (sumdb, tiles), as the property states. Liveness is decided with a generous 60 s cap (240 poll intervals) and, for forks, after 4 further observed polls; time never yields a violation by itself on honest logs unless the cap is hit.",
        "technique": "property-based end-to-end testing of the assembled service with stub log servers (rapid-generated schedules)",
        "assumptions": HIST_ASSUME + ["loopback TCP is available in the sandbox"],
        "parts": {
            "fixed": {"bin": "omni", "run": "TestC14Fixed", "kind": "plain"},
            "main": {"bin": "omni", "run": "TestC14", "checks": {"quick": 5, "thorough": 800}, "shards": {"quick": 1, "thorough": 16}, "shrinktime": "60s"},
        },
    },
    "C19": {
        "level": "exploration",
        "level_text": "(a) Byte strings sent to the real add-checkpoint handler (real witness holding a checkpoint, rebuilt per input, 16 KiB cap), to parseBody and to Proof.Unmarshal: seeds of every verdict class and hostile constants, structured mutations, random bytes under rapid (quick) and native coverage-guided fuzzing on all cores (thorough), with semantic oracles inside the targets. (b) Generated scripts of hostile log-server and distributor behaviour (valid/truncated/oversized/random bodies x statuses x connection errors; log-signed checkpoints with sizes 0..2^64-1 and roots of 0/5/32/33 bytes) for all five feeder types and the distributor, executed in child processes under a watchdog: every cycle must end with a result or an error, no panic, no hang.",
        "level_note": "Never establishes absence; depth is what the budget buys. Hangs are confirmed by a goroutine dump before being reported. Native fuzz campaigns cannot be seeded; their saved crashers are the reproducible unit.",
        "technique": "fuzzing (native go coverage-guided, thorough) + property-based structured mutation (rapid) with semantic oracles; hostile-server scripts under a process watchdog",
        "assumptions": HIST_ASSUME[:1],
        "parts": {
            "endpoint": {"bin": "bastion", "run": "TestC19Endpoint", "checks": {"quick": 3000, "thorough": 1000000}, "shards": {"quick": 4, "thorough": 16}},
            "feeders": {"bin": "verifh", "run": "TestC19Feeders", "checks": {"quick": 3, "thorough": 640}, "shards": {"quick": 1, "thorough": 16}, "shrinktime": "60s"},
            "sizes": {"bin": "verifh", "run": "TestC19Sizes", "kind": "plain", "shards": {"quick": 1, "thorough": 2}},
            "known": {"bin": "verifh", "run": "TestC19Known", "kind": "plain"},
            "fuzz-handler": {"bin": "bastion", "kind": "fuzz", "fuzz": "FuzzC19Handler", "run": "-", "fuzztime": {"thorough": 300}, "workers": 16, "tiers": ["thorough"]},
            "fuzz-parsebody": {"bin": "bastion", "kind": "fuzz", "fuzz": "FuzzC19ParseBody", "run": "-", "fuzztime": {"thorough": 150}, "workers": 16, "tiers": ["thorough"]},
            "fuzz-proof": {"bin": "bastion", "kind": "fuzz", "fuzz": "FuzzC19Proof", "run": "-", "fuzztime": {"thorough": 120}, "workers": 16, "tiers": ["thorough"]},
        },
    },
}

# properties not (yet) claimed: id -> reason
NOT_APPLICABLE = {pid: "check not built yet in this round (work in progress; see DESIGN.md)" for pid in
                  ["C%02d" % i for i in range(1, 21)] if pid not in PROPS}

HOOK_COMMITS = []
