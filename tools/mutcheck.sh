#!/bin/bash
# usage: tools/mutcheck.sh <prop[,prop...]> <file> <python-expr old> <python-expr new> [tier]
# Applies a textual mutation in a scratch worktree of /repo, runs the repo's own tests, then the named checks.
set -u
PROPS=$1; FILE=$2; OLD=$3; NEW=$4; TIER=${5:-quick}
WT=/tmp/mutwt.$$
export GOFLAGS=-mod=mod GOPROXY=off GOSUMDB=off GOTOOLCHAIN=local
git -C /repo worktree add --detach $WT HEAD >/dev/null 2>&1 || { echo "worktree failed"; exit 2; }
trap 'git -C /repo worktree remove --force $WT >/dev/null 2>&1' EXIT
python3 - "$WT/$FILE" "$OLD" "$NEW" <<'PY' || exit 2
import sys
p,old,new=sys.argv[1:4]
s=open(p).read()
if old not in s:
    print("MUTATION: pattern not found"); sys.exit(1)
open(p,'w').write(s.replace(old,new,1))
PY
(cd $WT && go build ./... 2>&1 | tail -5 && go test -vet=off -count=1 ./... 2>&1 | grep -v "no test files" | grep -v "^ok" | head -20; echo "baseline-done")
for P in ${PROPS//,/ }; do
  VERIF_REPO=$WT /verif/check $P $TIER 2>&1 | grep -E "VIOLATION|INCONCLUSIVE|BUILD-FAILED|^property=" | head -5
done
