#!/usr/bin/env python3
"""Mechanical single-token mutants of the anchored source files, as an independent measure of sensitivity.

usage: tools/automut.py <out.jsonl> [-j N] [--max N] [--only file:line:op,...] [file ...]

For every mutant (one operator applied at one place of one non-test file): apply it in a scratch worktree of /repo
(under /tmp, removed afterwards), keep it only if `go build ./...` and the repository's own 64 tests still pass, then run the
quick checks mapped to the file until one reports a violation. One JSON line per mutant: file, line, operator, before/after,
status in {"no-build", "killed-by-suite", "caught", "survived", "inconclusive"} and the check that caught it.

Survivors are candidates, not verdicts: a mechanical mutant is often equivalent (dead comparison, log text, redundant guard);
DESIGN.md section 9.2 lists the triage of every survivor.
"""
import concurrent.futures
import json
import os
import re
import subprocess
import sys

VERIF = os.path.dirname(os.path.dirname(os.path.abspath(__file__)))
ENV = dict(os.environ, GOFLAGS="-mod=mod", GOPROXY="off", GOSUMDB="off", GOTOOLCHAIN="local")

FILES = {
    "internal/witness/witness.go": ["C09", "C01", "C03", "C04", "C08", "C02", "C20", "C05", "C12"],
    "internal/witness/proof.go": ["C11", "C10"],
    "internal/persistence/sql/sql.go": ["C07", "C05", "C06", "C03", "C16"],
    "internal/persistence/inmemory/inmemory.go": ["C05", "C03", "C16", "C01"],
    "internal/http/server.go": ["C16", "C12", "C19"],
    "client/http/witness_client.go": ["C16", "C12"],
    "internal/distribute/rest/distribute.go": ["C15", "C12", "C19"],
    "internal/feeder/feeder.go": ["C13", "C14"],
    "internal/feeder/bastion/bastion_feeder.go": ["C10", "C11", "C19", "C12"],
    "internal/client/sumdb.go": ["C18", "C14", "C19"],
    "internal/feeder/sumdb/sumdb_feeder.go": ["C18", "C14", "C19", "C12"],
    "internal/feeder/tiles/tiles_feeder.go": ["C14", "C19", "C12"],
    "internal/config/log.go": ["C12", "C17", "C02"],
    "omniwitness/omniwitness.go": ["C14", "C12", "C13", "C17", "C16"],
}

# (name, regex, replacement) - applied to code lines only (not comments, not log/format strings where avoidable)
OPS = [
    ("eq->ne", r" == ", " != "),
    ("ne->eq", r" != ", " == "),
    ("lt->le", r" < ", " <= "),
    ("gt->ge", r" > ", " >= "),
    ("le->lt", r" <= ", " < "),
    ("ge->gt", r" >= ", " > "),
    ("and->or", r" && ", " || "),
    ("or->and", r" \|\| ", " && "),
    ("drop-not", r"(\(|\s)!(\w)", r"\1\2"),
    ("0->1", r"([=(,\s])0([,)\s;\]])", r"\g<1>1\2"),
    ("1->0", r"([=(,\s])1([,)\s;\]])", r"\g<1>0\2"),
    ("plus->minus", r" \+ ", " - "),
    ("minus->plus", r" - ", " + "),
    ("nil-err", r"return (.*)\berr$", r"return \1nil"),
    ("drop-return", r"^(\s*)return$", r"\1"),
    ("drop-defer", r"^(\s*)defer (.*)$", r"\1_ = 0"),
]

SKIP_LINE = re.compile(r"^\s*(//|klog\.|import|package|\"|\*|/\*)")


def mutants_of(path, rel):
    src = open(path).read().split("\n")
    out = []
    in_block_comment = False
    for i, line in enumerate(src):
        if "/*" in line:
            in_block_comment = True
        if in_block_comment:
            if "*/" in line:
                in_block_comment = False
            continue
        if SKIP_LINE.match(line) or "klog." in line:
            continue
        code = line.split("//")[0] if '"' not in line else line
        for name, rx, rep in OPS:
            for k, m in enumerate(re.finditer(rx, code)):
                # do not mutate inside string literals
                if code[:m.start()].count('"') % 2 == 1:
                    continue
                new = code[:m.start()] + m.expand(rep) + code[m.end():]
                if new == code:
                    continue
                out.append({"file": rel, "line": i + 1, "op": name, "occ": k, "before": line.strip(), "after": new.strip(), "_new": new})
    return out


def sh(cmd, cwd=None, timeout=900, env=None):
    try:
        r = subprocess.run(cmd, cwd=cwd, env=env or ENV, shell=isinstance(cmd, str), stdout=subprocess.PIPE, stderr=subprocess.STDOUT, text=True, timeout=timeout, errors="replace")
        return r.returncode, r.stdout
    except subprocess.TimeoutExpired:
        return -9, "timeout"


def run_one(idx, mut):
    wt = f"/tmp/automut.{os.getpid()}.{idx}"
    sh(["git", "-C", "/repo", "worktree", "add", "--detach", wt, "HEAD"])
    res = {k: v for k, v in mut.items() if not k.startswith("_")}
    try:
        p = os.path.join(wt, mut["file"])
        lines = open(p).read().split("\n")
        lines[mut["line"] - 1] = mut["_new"]
        open(p, "w").write("\n".join(lines))
        rc, _ = sh("go build ./...", cwd=wt)
        if rc != 0:
            res["status"] = "no-build"
            return res
        rc, _ = sh("go test -vet=off -count=1 ./...", cwd=wt, timeout=300)
        if rc != 0:
            res["status"] = "killed-by-suite"
            return res
        res["status"] = "survived"
        res["checks"] = {}
        for chk in FILES[mut["file"]]:
            rc, out = sh([os.path.join(VERIF, "check"), chk, "quick"], env=dict(ENV, VERIF_REPO=wt), timeout=900)
            res["checks"][chk] = rc
            if rc == 1:
                res["status"] = "caught"
                res["caught_by"] = chk
                lines = [l for l in out.splitlines() if "violated" in l]
                res["report"] = lines[0].strip()[:300] if lines else ""
                break
            if rc != 0 and res["status"] == "survived":
                res["status"] = "inconclusive"
        return res
    finally:
        sh(["git", "-C", "/repo", "worktree", "remove", "--force", wt])


def main():
    args = sys.argv[1:]
    out = args.pop(0)
    jobs, mx, only = 5, None, None
    files = []
    while args:
        a = args.pop(0)
        if a == "-j":
            jobs = int(args.pop(0))
        elif a == "--max":
            mx = int(args.pop(0))
        elif a == "--only":  # file:line:op[,file:line:op...] - re-run just these (e.g. after a strengthening)
            only = set(args.pop(0).split(","))
        else:
            files.append(a)
    muts = []
    for rel in files or FILES:
        muts += mutants_of(os.path.join("/repo", rel), rel)
    if only:
        muts = [m for m in muts if f"{m['file']}:{m['line']}:{m['op']}" in only]
    if mx and len(muts) > mx:
        # deterministic thinning: every k-th mutant
        step = len(muts) / mx
        muts = [muts[int(i * step)] for i in range(mx)]
    print(len(muts), "mutants", flush=True)
    done = set()
    if os.path.exists(out):
        for l in open(out):
            r = json.loads(l)
            done.add((r["file"], r["line"], r["op"], r["occ"]))
    with open(out, "a") as fh, concurrent.futures.ThreadPoolExecutor(jobs) as ex:
        futs = [ex.submit(run_one, i, m) for i, m in enumerate(muts) if (m["file"], m["line"], m["op"], m["occ"]) not in done]
        for f in concurrent.futures.as_completed(futs):
            r = f.result()
            fh.write(json.dumps(r) + "\n")
            fh.flush()
            print(r["status"], r["file"], r["line"], r["op"], r.get("caught_by", ""), flush=True)


if __name__ == "__main__":
    main()
