#!/bin/bash
# usage: tools/seedbatch.sh <outfile> <ID:props> ...   e.g. C01:C01,C05
OUT=$1; shift
for spec in "$@"; do
  ID=${spec%%:*}; PROPS=${spec#*:}
  for k in 1 2; do
    [ -f /tmp/seed/$ID/out/$k/patch.diff ] || continue
    echo "=== $ID/$k (checks: $PROPS)" >> $OUT
    /verif/tools/seedeval.sh /tmp/seed/$ID/out/$k $PROPS 2>&1 | tail -12 >> $OUT
  done
done
echo "BATCH DONE" >> $OUT
