#!/usr/bin/env python3
"""Prints the summary of automut/results*.jsonl (later lines for the same mutant win)."""
import collections, glob, json, os
V = os.path.dirname(os.path.dirname(os.path.abspath(__file__)))
res = {}
for f in sorted(glob.glob(os.path.join(V, "automut", "results*.jsonl"))):
    for l in open(f):
        r = json.loads(l)
        res[(r["file"], r["line"], r["op"], r["occ"])] = r
c = collections.Counter(r["status"] for r in res.values())
print(len(res), "mutants:", dict(c))
by = collections.Counter(r.get("caught_by") for r in res.values() if r["status"] == "caught")
print("caught by:", dict(by))
for k, r in sorted(res.items()):
    if r["status"] in ("survived", "inconclusive"):
        print(f"{r['status']:12} {r['file']}:{r['line']} {r['op']}: {r['before']}  =>  {r['after']}")
