#!/bin/bash
# usage: tools/repeat.sh <id> <tier> <seed...>   runs one check at several seeds, one line per run
export GOFLAGS=-mod=mod GOPROXY=off GOSUMDB=off GOTOOLCHAIN=local
cd "$(dirname "$0")/.."
P=$1; T=$2; shift 2
for S in "$@"; do
  T0=$(date +%s)
  OUT=$(VERIF_SEED=$S ./check $P $T 2>&1); RC=$?
  echo "seed=$S $P $T exit=$RC $(( $(date +%s) - T0 ))s $(echo "$OUT" | grep '^property=' | tail -1)"
  if [ $RC -ne 0 ]; then echo "$OUT" | grep -E "violated|VIOLATION|INCONCLUSIVE" | cut -c1-600 | head -5; fi
done
