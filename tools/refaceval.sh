#!/bin/bash
# usage: tools/refaceval.sh <dir containing patch.diff> [tier]
# Applies a behaviour-preserving refactoring in a scratch worktree, confirms build + existing suite, then runs EVERY check
# against it: all must stay silent (exit 0). Prints one line per check.
set -u
SD=$1; TIER=${2:-quick}
WT=/tmp/refwt.$$
export GOFLAGS=-mod=mod GOPROXY=off GOSUMDB=off GOTOOLCHAIN=local
git -C /repo worktree add --detach $WT HEAD >/dev/null 2>&1 || { echo "worktree failed"; exit 2; }
trap 'git -C /repo worktree remove --force $WT >/dev/null 2>&1' EXIT
(cd $WT && git apply $SD/patch.diff) || { echo "patch does not apply"; exit 2; }
(cd $WT && go build ./... >/tmp/refeval.$$.log 2>&1 && echo "build: OK" || { echo "build: FAIL"; tail -5 /tmp/refeval.$$.log; exit 2; })
(cd $WT && go test -vet=off -count=1 ./... >/tmp/refeval.$$.log 2>&1 && echo "suite: PASS" || { echo "suite: FAIL"; grep -v "no test files" /tmp/refeval.$$.log | grep -v '^ok' | tail -8; })
rm -f /tmp/refeval.$$.log
for P in $(python3 -c "import json; print(' '.join(c['property_id'] for c in json.load(open('/verif/MANIFEST.json'))['checks']))"); do
  T0=$(date +%s)
  OUT=$(VERIF_REPO=$WT /verif/check $P $TIER 2>&1); RC=$?
  echo "check $P $TIER: exit $RC in $(( $(date +%s) - T0 ))s"
  if [ $RC -ne 0 ]; then echo "$OUT" | grep -E "violated|VIOLATION|INCONCLUSIVE|BUILD" | cut -c1-700 | head -4; fi
done
