#!/usr/bin/env python3
"""Regenerates the seeded-change table in DESIGN.md section 9 from /verif/seeded/*/meta.json."""
import json, os, re
V = os.path.dirname(os.path.dirname(os.path.abspath(__file__)))
rows = []
caught_q = caught_any = total = 0
for sid in sorted(os.listdir(os.path.join(V, "seeded"))):
    mp = os.path.join(V, "seeded", sid, "meta.json")
    if not os.path.exists(mp):
        continue
    m = json.load(open(mp))
    det = m.get("detection", {})
    conf = m.get("confirmed", {})
    ok = conf.get("builds") and conf.get("existing_suite_with_change") == "pass" and str(conf.get("demo_with_change", "")).startswith("fail") and conf.get("demo_without_change") == "pass"
    cells = []
    for k, v in sorted(det.items()):
        cells.append(f"{k}: {'**caught**' if v.get('caught') else 'missed' if v.get('exit') == 0 else 'exit ' + str(v.get('exit'))} ({v.get('seconds')}s)")
    total += 1
    if any(v.get("caught") and k.endswith("quick") for k, v in det.items()):
        caught_q += 1
    if any(v.get("caught") for v in det.values()):
        caught_any += 1
    hist = m.get("history", "")
    rows.append(f"| {sid} | {m['breaks_property']} | {m['change']} | {m['needs_to_manifest']} | {'yes' if ok else 'NO'} | {'; '.join(cells)} | {hist} |")
txt = ["Each change was written by a fresh sub-agent that saw only the property's text and its own",
       "scratch worktree (nothing from /verif); each compiles and passes the 64 existing tests, and",
       "comes with a demonstration test that fails with the change and passes without it — all of",
       "which was re-confirmed independently by `tools/seedstore.py eval` (column *confirmed*)",
       "before the checks were run against it (`VERIF_REPO=<worktree> ./check <id> <tier>`).",
       "The files are in `/verif/seeded/<id>/`. Column *history* says what had to be strengthened",
       "when a change was first missed.", "",
       f"Summary at the last evaluation: {total} seeded changes, {caught_q} caught by a quick check of the listed properties, {caught_any} caught by some tier.", "",
       "| seed | breaks | change | needs in order to manifest | confirmed | detection by the current checks | history |",
       "|---|---|---|---|---|---|---|"] + rows
block = "<!-- SEEDED-TABLE-BEGIN -->\n" + "\n".join(txt) + "\n<!-- SEEDED-TABLE-END -->"
p = os.path.join(V, "DESIGN.md")
s = open(p).read()
if "SEEDED_TABLE_PLACEHOLDER" in s:
    s = s.replace("SEEDED_TABLE_PLACEHOLDER", block)
else:
    s = re.sub(r"<!-- SEEDED-TABLE-BEGIN -->.*?<!-- SEEDED-TABLE-END -->", lambda _: block, s, flags=re.S)
open(p, "w").write(s)
print(f"{total} seeds, {caught_q} caught quick, {caught_any} caught by some tier")
