#!/bin/bash
# Runs ALL quick checks at the same time (heavy CPU oversubscription) N times; any non-zero exit is printed.
cd "$(dirname "$0")/.."
N=${1:-2}
for i in $(seq 1 $N); do
  for P in $(python3 -c "import json; print(' '.join(c['property_id'] for c in json.load(open('MANIFEST.json'))['checks']))"); do
    ( OUT=$(VERIF_SEED=$((100+i)) ./check $P quick 2>&1); RC=$?; echo "round=$i $P exit=$RC $(echo "$OUT" | grep '^property=' | tail -1 | sed 's/.*wall=/wall=/')"; [ $RC -ne 0 ] && echo "$OUT" | grep -E "violated|VIOLATION|INCONCL|rapid ran|without a saved" | cut -c1-500 | head -5 ) &
  done
  wait
done
echo LOADTEST-DONE
