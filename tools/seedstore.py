#!/usr/bin/env python3
"""Stores confirmed seeded mutations under /verif/seeded/<id>/ and (re)evaluates them.

usage: tools/seedstore.py store            copy patch/demo/notes from /tmp/seed/*/out/* and write meta.json
       tools/seedstore.py eval [id ...]    apply each stored seed in a scratch worktree, confirm it independently
                                            (build, existing suite, demo with/without) and run the listed checks;
                                            results are written into meta.json
"""
import json
import os
import re
import shutil
import subprocess
import sys
import time

VERIF = os.path.dirname(os.path.dirname(os.path.abspath(__file__)))
SEEDED = os.path.join(VERIF, "seeded")
ENV = dict(os.environ, GOFLAGS="-mod=mod", GOPROXY="off", GOSUMDB="off", GOTOOLCHAIN="local")

# id -> (property, checks to run, what the change is, what it needs in order to manifest)
SEEDS = {
    "C01-1": ("C01", ["C01", "C09"], "witness.Update: the size-0 block is moved above the same-size root comparison, so a second size-0 checkpoint with a different root is cosigned", "a stored size-0 checkpoint, then a log-signed size-0 checkpoint with another root (old 0, empty proof)"),
    "C01-2": ("C01", ["C05", "C01"], "inmemory.expectAndWrite: the 'expected no state but found one' conflict arm is dropped in a tidy-up", "two overlapping first-use updates of one log on the in-memory store (both open their write handle before either stores)"),
    "C02-1": ("C02", ["C02", "C12"], "witness.parse: cache of successful verifications keyed by sha256(raw checkpoint) only (no log ID)", "a checkpoint first accepted for its own log, then replayed under another configured log's ID"),
    "C02-2": ("C02", ["C12", "C17"], "omniwitness AsLogMap memoises the whole LogInfo per public key, so logs sharing a key get the first log's origin", "a configuration with two logs sharing one key string (the shipped Rekor shards do)"),
    "C03-1": ("C03", ["C03", "C07"], "witness.Update: sign+Set+count folded into a helper whose Set-failure branch returns the fresh cosignature together with the error", "a storage failure (or lost CAS race) at the final Set of an otherwise valid update"),
    "C03-2": ("C03", ["C05", "C03"], "inmemory: insertion-ordered log list appended before the conflict check, so a refused first update adds a duplicate entry to GetLogs", "two overlapping first-use updates of one log on the in-memory store"),
    "C04-1": ("C04", ["C04"], "witness.Update: same-size resubmission of bytes identical to the stored ones returns the stored checkpoint without re-signing", "resubmitting exactly the witness's own cosigned output after time has passed (stale cosignature timestamp handed out)"),
    "C04-2": ("C04", ["C04"], "witness.parse rebuilds n.Text from the parsed checkpoint (Marshal), so non-canonical but valid texts are re-spelled before signing", "a log-signed checkpoint with leading zeros in the size or spare base64 bits in the root"),
    "C05-1": ("C05", ["C05"], "inmemory.expectAndWrite rewritten as a switch whose 'no snapshot' arm no longer rejects when state exists", "interleaving WriteOps_A, WriteOps_B, Set_A, Set_B on a log without stored state"),
    "C05-2": ("C05", ["C05"], "sql: lazy transaction - WriteOps no longer begins a tx, GetLatest reads through db, Set begins+commits", "interleaving GetLatest_A, GetLatest_B, Set_A, Set_B on SQLite (two forks from the same old size both stored)"),
    "C06-1": ("C06", ["C06"], "sql: placeholder row INSERT OR IGNORE outside the transaction, Set becomes UPDATE, NULL chkpt mapped to NotFound", "a crash between the placeholder statement and the commit of a log's first update (log listed but no checkpoint)"),
    "C06-2": ("C06", ["C06"], "sql: in-process hasRow cache chooses UPDATE vs INSERT OR IGNORE; after a restart the first update of a known log is acknowledged but not stored", "a restart between a log's first checkpoint and a later acknowledged update"),
    "C07-1": ("C07", ["C07"], "sql.getLatestCheckpoint refactored to Query+rows.Next without rows.Err: a row-fetch error is reported as NotFound", "a driver error while fetching the row of the previous checkpoint (then a fork presented as first use is accepted)"),
    "C07-2": ("C07", ["C07"], "witness.Update: defer write.Close() moved below an early return for non-NotFound read errors (leaks the write handle)", "a non-NotFound error reading the previous checkpoint, then any operation on the one-connection store"),
    "C08-1": ("C08", ["C08"], "witness.signChkpt: readable-note re-open replaced by a count check that forgets the log's own line", "a log-signed checkpoint with exactly 99 unknown signature lines, then any later update"),
    "C08-2": ("C08", ["C08", "C09"], "witness.Update: equal-size comparison uses the signed note text instead of the root hash", "an accepted checkpoint with extension lines, then an honest equal-size resubmission with different/no extension lines"),
    "C09-1": ("C09", ["C09"], "witness.Update: same size + same root short-circuits to sign+store before the proof is looked at", "equal sizes with a non-empty proof (must be ErrInvalidProof)"),
    "C09-2": ("C09", ["C09"], "witness.Update: 'old > size' computed with signed int64 arithmetic", "old size exceeding the checkpoint size by more than 2^63 (e.g. old = 2^64-1), or size 2^63 with old 0"),
    "C10-1": ("C10", ["C10"], "witness.Update: same size + same root short-circuit returns the stored cosigned checkpoint (cosignature over the previous text)", "an accepted checkpoint, then a resubmission with the same size/root but different extension lines"),
    "C10-2": ("C10", ["C10"], "bastion.handleUpdate pre-checks old size > checkpoint size on the unauthenticated checkpoint and answers 400 before asking the witness", "a request falling under two rules at once: invalid signature AND old size above the checkpoint size (403 expected)"),
    "C11-1": ("C11", ["C11"], "parseBody collects bufio.ReadLine slices first and decodes later (slices alias the reader's buffer)", "a body longer than 4096 bytes or delivered in more than one read"),
    "C11-2": ("C11", ["C11"], "Proof.Unmarshal uses strings.SplitN(s, \"\\n\", 64) as an allocation guard and silently drops the 64th hash", "a proof of exactly 64 (or more) hashes"),
    "C12-1": ("C12", ["C12", "C02"], "witness.parse hand-rolls note.Open+Unmarshal and drops the origin comparison", "two logs sharing a signing key and a checkpoint of one submitted under the other's ID"),
    "C12-2": ("C12", ["C12"], "omniwitness.Main fills KnownLogs in its own loop and no longer calls AsLogMap (collision check bypassed)", "a configuration with two entries of the same origin, observed at Main level"),
    "C13-1": ("C13", ["C13"], "feeder.submitToWitness caches the witness's latest checkpoint across retries (not cleared on fetch-proof failure)", "a transient fetch-proof failure while the witness advances between attempts"),
    "C13-2": ("C13", ["C13"], "omniwitness.witnessAdapter.GetLatestCheckpoint returns (cp, nil) for non-NotFound read errors", "a transient storage read error under the adapter while the witness already holds a checkpoint (feeder then submits old size 0)"),
    "C14-1": ("C14", ["C14", "C07", "C03"], "sql writer: Close rolls back only if something was written ('dirty' flag), leaking read-only transactions", "SQLite storage and a refused update (log serves a fork): the single connection is pinned and the service wedges"),
    "C14-2": ("C14", ["C14", "C08", "C09"], "witness.Update refuses proofs longer than bits.Len64(next.Size) hashes (off-by-one upper bound)", "odd old size crossing the top power of two to a non-power-of-two in one step, e.g. 255->257, 65535->65537"),
    "C15-1": ("C15", ["C15"], "rest distributor: verification memo keyed by sha256 of the checkpoint bytes only", "two or more logs; the witness answers one log with another configured log's valid checkpoint that was verified earlier"),
    "C15-2": ("C15", ["C15"], "rest DistributeOnce runs logs in parallel under errgroup.WithContext and returns errors (first failure cancels the others)", "two or more logs, one failing fast while another log's PUT is still in flight"),
    "C16-1": ("C16", ["C16"], "client/http GetLatestCheckpoint reads the body through io.LimitReader(4 KiB) without noticing truncation", "a stored cosigned checkpoint larger than 4096 bytes (many signature lines)"),
    "C16-2": ("C16", ["C16", "C04"], "witness: read cache refreshed after Set at two of the three store sites (not in the size-0 branch)", "a size-0 checkpoint accepted a second time with different bytes, then a GET"),
    "C17-1": ("C17", ["C17"], "logs.yaml: second Armory Drive entry with the same origin written in another YAML spelling", "loading through AsLogMap / comparing derived IDs (per-entry checks pass)"),
    "C17-2": ("C17", ["C17"], "omniwitness.Main decodes the YAML with KnownFields(true); shipped entries carry a leftover PublicKeyType field", "actually starting Main with the shipped configuration"),
    "C18-1": ("C18", ["C18"], "client.tilePath loop condition offset > pathBase (carry component dropped when the quotient is exactly 1000)", "tile index 1000, 10^6..10^6+999, 10^9.."),
    "C18-2": ("C18", ["C18", "C14"], "sumdb feeder keeps one tileReader with a SaveTiles cache keyed by (level, index) without width across feed cycles", "three successive cycles of one periodic feeder touching the same partial tile at growing widths"),
    "C19-1": ("C19", ["C19"], "sumdb feeder size guard becomes 'to.Size > 1<<62' (off by one): size exactly 2^62 reaches tlog.ProveTree and spins", "a log-signed /latest of size exactly 2^62 while the witness holds a smaller checkpoint"),
    "C19-2": ("C19", ["C19", "C10"], "bastion ServeHTTP slices cp[:bytes.IndexByte(cp,'\\n')] after only checking len(cp)==0 (panics on -1)", "a body whose checkpoint part is non-empty and has no newline, e.g. \"old 0\\n\\nx\""),
    "C20-1": ("C20", ["C20"], "witness: split-view alarm (log line and counterInconsistentCheckpoints) de-duplicated per (log, conflicting root)", "the same conflicting root presented to the same log at least twice"),
    "C20-2": ("C20", ["C20"], "witness: success counter incremented before write.Set in a cosignAndStore helper", "an update whose final Set fails (storage fault or lost CAS race)"),
}

# round 2 (same protocol, fresh agents, asked for interaction-type defects); stored as <ID>-3 / <ID>-4
SEEDS2 = {
    "C01-3": ("C01", ["C05", "C01"], "witness: memo of the parsed latest cosigned checkpoint refreshed in signChkpt (before Set); Update checks requests against the memo", "two overlapping updates of one log (the loser's checkpoint becomes the memo) plus one later ordinary request extending the loser"),
    "C01-4": ("C01", ["C05", "C01"], "sql: lazily opened transaction (WriteOps does not begin, GetLatest reads outside, Set opens the tx)", "SQL storage and two overlapping updates of one log"),
    "C03-3": ("C03", ["C03", "C07"], "witness: cosignAndStore helper ends with 'return signed, err' (fresh cosignature returned together with the Set error)", "a Set failure (storage fault or in-memory write conflict) after all validation passed"),
    "C03-4": ("C03", ["C03", "C07"], "sql: read cache filled by a defer in Set that ignores the COMMIT result; plain reads answer from the cache", "SQL storage, a COMMIT failure after a successful INSERT, then a read of the latest checkpoint"),
    "C05-3": ("C05", ["C05"], "sql: optimistic compare-before-commit that skips the check when nothing was stored at read time (no tx held between read and write)", "two overlapping first-use updates of one log on SQLite"),
    "C05-4": ("C05", ["C05"], "witness: 'latest cosigned' sync.Map cache published after Set and Close; GetCheckpoint serves from it", "an update preempted between its Set and its return (e.g. in Close) while a larger update completes: readers see the size go down"),
    "C06-3": ("C06", ["C06"], "sql: placeholder row (logID, NULL) inserted and auto-committed before the transaction; cleaned up only by the writer that created it", "a kill between the placeholder insert and the commit of a log's first update"),
    "C06-4": ("C06", ["C06"], "sql: no transaction; Set = DELETE of the row read, then INSERT (two auto-commits)", "a kill between the DELETE and the INSERT of a growth/refresh (log forgotten, fork accepted as first use)"),
    "C07-3": ("C07", ["C07"], "sql.getLatestCheckpoint via Query/rows.Next without rows.Err (row-fetch error = NotFound)", "a driver error while fetching the previous checkpoint's row"),
    "C07-4": ("C07", ["C07"], "witness: openLatest helper opens the write handle and reads; on a non-NotFound read error it returns without closing the handle", "a read error inside Update on a one-connection store, then any operation"),
    "C09-3": ("C09", ["C09"], "witness: 'old > size' computed as int64(next.Size - oldSize) < 0 (wraps for differences >= 2^63)", "old size 2^64-1 or 2^63+9 against a small checkpoint; size 2^63 with old 0"),
    "C09-4": ("C09", ["C09", "C08"], "witness: proof-length guard bits.Len64(size) refuses maximal-length correct proofs to non-power-of-two sizes", "growth pairs such as 3->5, 5->7, 7->9, 15->17, 1023->1025"),
    "C10-3": ("C10", ["C10"], "witness wraps ErrRootMismatch with fmt.Errorf(%w); the bastion handler switches on identity and answers 500", "same size, different root through the endpoint with the real witness"),
    "C10-4": ("C10", ["C10"], "bastion handler memoises the held size per log and answers stale (409+size) without asking the witness", "a request with an old size below the held size that also has a bad signature (403) or old size above the checkpoint size (400)"),
    "C13-3": ("C13", ["C13"], "feeder: proof memo across retries recorded before the FetchProof error check (a failed fetch stores a nil proof)", "one transient fetch-proof failure while the witness holds a smaller checkpoint"),
    "C13-4": ("C13", ["C13"], "witnessAdapter maps codes.Unknown (every plain error) as well as NotFound to os.ErrNotExist", "a plain storage read error under the adapter while the witness holds a checkpoint"),
    "C14-3": ("C14", ["C14", "C07", "C03"], "witness: memo of the latest parsed checkpoint refreshed after the proof verifies but before Set commits", "one failed store of a growing update (then every later request is answered stale until restart)"),
    "C14-4": ("C14", ["C14", "C07"], "sql writer: Close skips Rollback when nothing was written (leaks read transactions on refusals)", "SQLite file storage, a refused update on one log, then growth of another log"),
    "C16-3": ("C16", ["C16"], "http getCheckpoint lower-cases the requested log ID before the lookup", "an upper/mixed-case spelling of a stored hex ID (must be 404)"),
    "C16-4": ("C16", ["C16"], "client maps a 404 to os.ErrNotExist only if the body contains the in-memory store's message", "SQL-backed witness and a log without checkpoint, read through the bundled client"),
    "C19-3": ("C19", ["C19", "C11"], "parseBody pre-allocates 63 proof slots and indexes them; the guard is off by one (64th line panics)", "a body with 64 or more valid proof lines"),
    "C19-4": ("C19", ["C19"], "pixel feeder converts the log-signed root with tlog.Hash(to.Hash) (panics for roots shorter than 32 bytes)", "Pixel feeder, log-signed checkpoint with a 0/5-byte root, witness holding an earlier checkpoint"),
    "C20-3": ("C20", ["C20"], "witness: signAndStore helper defers the success increment before Set", "a Set failure after verification passed"),
    "C20-4": ("C20", ["C20"], "witness: split-view counter guarded by a per-log memo of the last reported conflicting root", "the same conflicting root presented twice in a row to one log"),
}
SEEDS2.update({
    "C02-3": ("C02", ["C02", "C12"], "witness.parse: bounded memo of verified checkpoints keyed by sha256(raw) only", "a checkpoint accepted for log A, then the same bytes submitted under another configured log's ID"),
    "C02-4": ("C02", ["C02", "C09"], "witness.Update: new ErrInvalidCheckpoint for log-signed notes with a bad body/wrong origin, checked only after the stored-state lookup (first use skips it)", "nothing stored for the target ID and a note validly signed by that ID's key over a foreign text (another origin under a shared key, malformed size line)"),
    "C04-3": ("C04", ["C04", "C07"], "witness.Update: on the refresh path a failing Set is logged and the update reported as accepted", "a stored checkpoint, a same-size resubmission and a Set failure in that call"),
    "C04-4": ("C04", ["C04"], "witness.Update: the size-0 branch returns (prevRaw, nil) instead of re-signing", "first use at size 0, a resubmission at size 0, and the clock in a later second (stale cosignature)"),
    "C08-3": ("C08", ["C08"], "signChkpt: up-front count len(UnverifiedSigs)+len(Signers) > 100 replaces the re-open check (forgets the log's line)", "exactly 99 extra unknown signature lines on an accepted checkpoint, then any later update"),
    "C08-4": ("C08", ["C08"], "witness.Update reads the stored checkpoint with a stricter hand-written parser that requires the body to be followed directly by the signature block", "an accepted checkpoint with extension lines, then any further update"),
    "C11-3": ("C11", ["C11"], "parseBody reads header lines through a 64-byte bufio reader (isPrefix ignored)", "proof hashes of 46..64 bytes (base64 lines of 64+ characters)"),
    "C11-4": ("C11", ["C11"], "Proof.Unmarshal: strings.SplitN with limit 64 drops the 64th hash", "a proof of exactly 64 hashes"),
    "C12-3": ("C12", ["C12", "C02"], "witness.parse memo keyed by the checkpoint bytes only (skips origin and key check for other IDs)", "two logs on one witness, the owner log sees the bytes first, then they are replayed to a log without state"),
    "C12-4": ("C12", ["C12"], "config.NewLog trims origin/key/URL; AsLogMap keeps the origin verbatim", "an origin with surrounding whitespace (IDs differ between witness map and feeder list; 'x' and 'x ' pass the collision check)"),
    "C15-3": ("C15", ["C15"], "rest distributor: 'already verified' memo keyed by the hash of the raw bytes only", "two or more logs, the witness answering one log with another configured log's valid, earlier verified checkpoint"),
    "C15-4": ("C15", ["C15"], "rest DistributeOnce: errgroup.WithContext with limit 2; first failure cancels the others", "two or more logs, one failing and finishing before a healthy one completes its PUT"),
    "C17-3": ("C17", ["C17", "C12"], "config.NewLog memoised by public-key string keeping the first origin's ID", "two shipped entries sharing a key (the Rekor shards): feeder-side IDs differ from the witness map's keys"),
    "C17-4": ("C17", ["C17"], "rekor feeder apiRoot helper aliases the parsed URL and clears its query, so treeID reads as empty", "starting any shipped Feeder: rekor entry"),
    "C18-3": ("C18", ["C18"], "client.tilePath rewritten recursively; the quotient is printed as one x%03d component (wrong from index 10^6)", "tile index >= 1,000,000"),
    "C18-4": ("C18", ["C18", "C14"], "sumdb feeder: SaveTiles cache keyed by (level, index) without width, reader hoisted out of the proof closure", "one running periodic feeder building two or more proofs for a growing log"),
})
# round 3: the agents were additionally told that a property-based/fuzzing harness will hunt the change and
# were asked for defects such a harness is unlikely to hit by generic random generation
SEEDS3 = {
    "C01-5": ("C01", ["C07", "C01", "C06"], "sql: Set only stages the INSERT, Close() commits; Witness.Update discards Close's error, so a COMMIT failure is swallowed (cosigned but never stored)", "SQL storage and a fault exactly at COMMIT, then an update built on the stale stored checkpoint"),
    "C01-6": ("C01", ["C05", "C01"], "inmemory.expectAndWrite collapsed to one condition (the 'read no state so none may exist' arm is gone)", "two overlapping first-contact updates on the in-memory store with mutually inconsistent checkpoints"),
    "C02-5": ("C02", ["C02", "C12"], "witness.parse memo keyed by (key name, key hash, sha256(raw)) but not the origin", "shared-key sibling logs; the sibling's accepted checkpoint replayed byte-identically to the other ID"),
    "C02-6": ("C02", ["C02", "C12"], "witness.parse: fail-fast origin pre-check bytes.HasPrefix(raw, origin) replaces the exact origin comparison", "a shared key and one origin a strict prefix of the other; the longer-origin checkpoint submitted to the shorter-origin ID"),
    "C03-5": ("C03", ["C03"], "witness: setWithContext runs Set in a goroutine and returns on ctx.Done(); the abandoned write still lands", "the request context cancelled exactly while Set is in flight (refused, but the checkpoint appears later)"),
    "C03-6": ("C03", ["C03", "C07"], "sql: write-through read cache filled after the INSERT and before COMMIT", "SQL storage, a COMMIT failure after a good Exec, then a read in the same process"),
    "C05-5": ("C05", ["C05"], "inmemory compare-and-set split across two lock scopes (check under RLock, write under Lock)", "two Set calls overlapping INSIDE the store (a window of a few hundred nanoseconds within one storage operation)"),
    "C05-6": ("C05", ["C05", "C16"], "witness: latest-checkpoint cache filled after Set in completion order; reads served from it", "two accepted overlapping updates of one log, the first paused between its Set returning and its cache store; then a read"),
    "C06-5": ("C06", ["C06"], "sql: per-log read cache updated inside Set after Exec but before Commit", "a concurrent read of the same log while an update is between Exec and the end of Commit, plus a kill in that window"),
    "C06-6": ("C06", ["C06"], "witness: memo of the last cosigned checkpoint answers identical same-second resubmissions without touching the store (recorded before Set commits)", "the same bytes resubmitted concurrently in the same second while the original is before its COMMIT, plus a kill"),
    "C07-5": ("C07", ["C07"], "sql.getLatestCheckpoint via Query/rows.Next without rows.Err", "a driver error while stepping to the previous checkpoint's row"),
    "C07-6": ("C07", ["C07"], "sql.Set: UPDATE then INSERT if no row was affected; the INSERT's error is assigned to a shadowed variable and lost", "SQL storage, first-use position, a fault on the SECOND Exec of the transaction while the first succeeds"),
    "C08-5": ("C08", ["C08"], "(see author notes)", "(see author notes)"),
    "C08-6": ("C08", ["C08"], "(see author notes)", "(see author notes)"),
    "C09-5": ("C09", ["C09"], "witness.Update: same-size branch returns (prevRaw, nil) when the submitted bytes equal the stored bytes (skips the proof rule)", "exactly the stored cosigned note resubmitted with old = stored size and a NON-EMPTY proof"),
    "C09-6": ("C09", ["C09", "C02"], "witness.parse memo keyed by sha256(raw) only", "two logs; bytes verified for one log cross-submitted under the other's ID"),
    "C10-5": ("C10", ["C10"], "witness.Update: same size and same root returns (prevRaw, nil) (no re-sign, proof not looked at)", "an accepted checkpoint, then a log-signed same-size same-root checkpoint with other extension lines, or a same-size resubmission with a proof line"),
    "C10-6": ("C10", ["C10"], "bastion: stale 409 body formatted with strconv.Itoa(int(size)) (wraps negative from 2^63)", "the witness first accepts a checkpoint of size >= 2^63, then a request with a stale old size"),
    "C13-5": ("C13", ["C13"], "feeder: consistency proof hoisted out of the retried closure and fetched only once", "an attempt that reaches Update and fails, then the witness reporting a different latest in the next attempt"),
    "C13-6": ("C13", ["C13"], "FeedOnce forwards a note re-signed over cpSubmit.Marshal() instead of the verified text", "a log-signed checkpoint with extension lines or a non-canonical size spelling"),
    "C16-5": ("C16", ["C16"], "client GetLatestCheckpoint reads the body with io.CopyN(resp.ContentLength) (0 bytes when the response is chunked / length unknown)", "a stored cosigned checkpoint larger than net/http's 2 KiB sniff buffer (no Content-Length)"),
    "C16-6": ("C16", ["C16", "C04"], "witness read cache refreshed at two of the three store sites (not the size-0 branch)", "first accepted update at size 0, a second accepted size-0 update with different bytes, then a GET"),
    "C19-5": ("C19", ["C19"], "rekor feeder: merged shard structs with []*shardInfo; a JSON null element in inactiveShards is dereferenced", "a 200 JSON reply whose inactiveShards contains a literal null and no earlier shard matches the treeID"),
    "C19-6": ("C19", ["C19", "C14"], "feeder.Run returns the (shadowed per-cycle) context error when a cycle times out, ending the feeder and, through Main's errgroup, the service", "continuous mode and a failure inside the retry loop that lasts a whole interval (e.g. a fork)"),
    "C04-5": ("C04", ["C04", "C08"], "witness.parse rewrites the note text with cp.Marshal()+extensions before cosigning ('cosign exactly what was checked')", "an accepted checkpoint spelt non-canonically (leading-zero size, base64 with non-zero padding bits)"),
    "C04-6": ("C04", ["C07", "C04", "C03"], "sql: Set only marks dirty, Close commits; Update discards Close's result, so a failed COMMIT is reported as acceptance", "SQL storage and a COMMIT that fails after a good INSERT"),
    "C11-5": ("C11", ["C11", "C19"], "parseBody keeps bufio.ReadLine slices across later reads (readHeader helper)", "old line + proof lines beyond 4096 bytes, or a header delivered in several reads"),
    "C11-6": ("C11", ["C11", "C10"], "parseBody wraps the input in io.LimitReader(1 MiB): a larger body loses its tail silently", "a body larger than 1,048,576 bytes"),
    "C12-5": ("C12", ["C12", "C05"], "inmemory: per-log compare-and-swap replaced by one store-wide write counter", "in-memory store and two overlapping updates for DIFFERENT logs"),
    "C12-6": ("C12", ["C12", "C10"], "bastion ServeHTTP takes the origin line with bufio.ReadLine (truncates at 4096 bytes, isPrefix dropped)", "a request through the bastion endpoint for a log whose origin is longer than 4096 bytes"),
    "C14-5": ("C14", ["C14", "C18"], "client.tilePath loop 'offset > pathBase': tile index exactly 1000 rendered as 000", "a sumdb log already witnessed whose new size lies in 256001..256255 (proof needs level-0 tile 1000)"),
    "C14-6": ("C14", ["C14"], "tiles feeder caches the ProofBuilder while to.Size is unchanged (root not compared)", "witness at M; the log serves a fork at N > M (rejected), then its honest history at exactly N, no restart in between"),
    "C15-5": ("C15", ["C15"], "distributor URL built with path.Join on the unescaped witness name", "a witness key name containing '/' (or '.', '..')"),
    "C15-6": ("C15", ["C15"], "DistributeOnce returns at once when a per-log error matches context.Canceled/DeadlineExceeded (errors now wrapped with %w)", "a client/transport timeout on a log that is not the last of two or more"),
    "C17-5": ("C17", ["C17"], "Main decodes the embedded config with yaml KnownFields(true); the shipped PublicKeyType keys are unknown fields", "running omniwitness.Main itself"),
    "C17-6": ("C17", ["C17"], "rekor feeder: apiRoot() aliases the parsed URL and clears RawQuery before treeID is read", "the real rekor.FeedLog invoked on a shipped Rekor entry"),
    "C18-5": ("C18", ["C18", "C13"], "sumdb fetchProof memoises the last proof keyed by the target only (not by from)", "within one FeedLog call: a proof A->T refused, then the witness at B != A while the log is still at T"),
    "C18-6": ("C18", ["C18"], "HTTPFetcher.GetData resolves the path with URL.ResolveReference (drops a path prefix of the configured URL)", "a SumDB mounted under a path prefix"),
    "C20-5": ("C20", ["C20"], "cosignAndStore helper: defer counterUpdateSuccess.Inc registered before write.Set", "Set fails after all checks passed (lost in-memory CAS race or a storage fault at Set)"),
    "C20-6": ("C20", ["C20", "C09"], "new pre-check len(proof) > 63 returns ErrInvalidProof without counting, placed before the root comparison", "old = stored size and a proof of 64 or more lines"),
}
SEEDS2.update(SEEDS3)
SEEDS4 = {
    "C11-7": ("C11", ["C11"], "feedbastion Update retries the POST re-using one consumed bytes.Reader (retry posts an empty body or a suffix)", "a one-off transport fault or 502/503/504 on the first attempt, then looking at the retried body"),
    "C11-8": ("C11", ["C11"], "feedbastion bastionClient builds the body in a shared bytes.Buffer whose lock is released before the POST", "two overlapping Update calls on one client, the second building its body before the first request was read"),
    "C16-7": ("C16", ["C16"], "http server: singleflight around the checkpoint read keyed by the route template (same key for every log)", "GETs for two different IDs overlapping inside the storage read"),
    "C16-8": ("C16", ["C16"], "http server lower-cases the requested log ID", "a GET whose ID is a re-capitalised spelling of a known ID"),
    "C19-7": ("C19", ["C19"], "serverless fetcher grows a bytes.Buffer to resp.ContentLength before copying", "a response whose Content-Length header overstates the body by many orders of magnitude (>= 2^62)"),
    "C19-8": ("C19", ["C19"], "pixel feeder: tileReader hoisted out of fetchProof captures FeedLog's long-lived context instead of the per-cycle one", "periodic mode, witness holding an older checkpoint, a log that answers the checkpoint but stalls on a tile request"),
    "C14-7": ("C14", ["C14", "C13"], "feeder.Run skips a cycle when the log serves the same checkpoint bytes as last time; remembered before the submission succeeded", "one cycle in which the checkpoint fetch works but the proof fetch or the update fails for the whole interval, and the log does not grow afterwards"),
    "C14-8": ("C14", ["C14", "C17"], "Main: logs and feeders kept in two slices indexed together although 'none' feeders are only in one", "a configuration with a Feeder: none entry listed before a polled one (the shipped logs.yaml has that shape)"),
    "C12-7": ("C12", ["C12"], "config.NewLog derives the ID from strings.TrimRight(origin, \"/\") while everything else hashes the raw origin", "a configured origin ending in '/'"),
    "C12-8": ("C12", ["C12"], "AsLogMap: local originID helper passes the origin as a format string (fmt.Fprintf(h, \"o:\"+origin))", "a configured origin containing '%'"),
    "C17-7": ("C17", ["C17"], "LogInfo.UnmarshalYAML tidies the URL with path.Clean (drops the trailing slash that relative resolution needs)", "serverless/pixel entries whose URL path ends in '/' (7 shipped entries); only visible in WHICH URL is requested"),
    "C17-8": ("C17", ["C17"], "pixel feeder derives a rate-limiter key with net.SplitHostPort(lURL.Host) and returns its error", "a shipped-style URL without an explicit port"),
    "C20-7": ("C20", ["C20"], "success counter moved into signChkpt (counts at cosigning, before Set)", "Set failing after all checks passed: a lost optimistic race or a storage fault exactly at Set"),
    "C20-8": ("C20", ["C20"], "reportInconsistent de-duplicates by the last offending raw checkpoint per log, returning above the counter increment", "two root-mismatch refusals for the same log with byte-identical forked checkpoints and no other fork in between"),
    "C06-7": ("C06", ["C06"], "monolith.go opens SQLite with _journal_mode=MEMORY&_cache_size=-64 (pages spill into the file before COMMIT, the undo journal is only in RAM)", "cosigned checkpoints of ~45 KB or more and a kill between Exec and Commit"),
    "C06-8": ("C06", ["C06", "C16"], "Main wraps the persistence in a latestCache: Set publishes the checkpoint to readers, then calls the real Set", "a read landing between the cache publish and the COMMIT, plus a SIGKILL in the same window"),
}
SEEDS2.update(SEEDS4)
SEEDS5 = {
    "C01-7": ("C01", ["C07", "C01"], "sql.getLatestCheckpoint via Query/rows.Next without rows.Err (row-fetch failure read as NotFound = first use)", "SQL storage, a log with a stored checkpoint, a failure exactly at driver.Rows.Next while the following write succeeds"),
    "C01-8": ("C01", ["C05", "C01"], "inmemory: map of pointers; snapshots alias the live state and expectAndWrite writes through the pointer", "in-memory store, two updates of one log that both open their write op before either stores, with forked checkpoints"),
    "C02-7": ("C02", ["C02", "C03", "C09", "C16", "C12"], "witness: case-tolerant log-ID lookup (exact, then lower-cased) while persistence gets the raw ID", "an unconfigured upper-cased spelling of a configured ID"),
    "C02-8": ("C02", ["C04", "C02", "C08"], "witness.parse returns a note rebuilt from cp.Marshal()+extensions instead of the verified text", "a correctly signed checkpoint spelt non-canonically (leading-zero size, non-zero base64 trailing bits)"),
    "C03-7": ("C03", ["C03", "C08"], "the cosigned-note readability check moved into a deferred closure that runs after the commit", "an otherwise acceptable checkpoint arriving with 99/100 signature lines"),
    "C03-8": ("C03", ["C03"], "Update runs the work in a goroutine and returns (nil, ctx.Err()) when the context ends first; the goroutine commits anyway", "the request context ending while an acceptable update is between its checks and its Set"),
    "C04-7": ("C04", ["C04", "C10"], "same-size refresh re-cosigns and returns the STORED note (nextNote = prevNote) instead of the submitted one", "an accepted update, then a same-size same-root refresh whose text differs (other extension lines)"),
    "C04-8": ("C04", ["C16", "C04"], "http server reply helper passes the checkpoint as a format string", "a '%' anywhere in the stored note, read through HTTP GET"),
    "C05-7": ("C05", ["C05"], "inmemory expectAndWrite copies the new checkpoint into the replaced entry's backing array (append(got.rawChkpt[:0], ...))", "two overlapping updates of one log where the winner's cosigned checkpoint has exactly the byte length of the one it replaces"),
    "C05-8": ("C05", ["C05"], "a refresh whose Set is refused re-opens the write handle and stores again without re-reading", "in-memory store, a refresh and a growth of one log overlapping, the growth storing first"),
    "C07-7": ("C07", ["C07"], "(same mechanism as C07-5, written independently) rows.Next without rows.Err", "a fault at driver.Rows.Next"),
    "C07-8": ("C07", ["C07"], "(same mechanism as C07-6, written independently) UPDATE-then-INSERT with a shadowed err", "first use, a fault on the second Exec only"),
    "C08-7": ("C08", ["C08"], "parse() refuses notes over 16 KiB; the stored note is the submitted one plus the witness lines", "a submitted note whose length lies in the ~117-byte window just under 16 KiB"),
    "C08-8": ("C08", ["C08"], "signChkpt counts signature lines instead of re-opening the note; the witness's own lines are recognised by NAME only", "exactly 100 lines in total, one of them carrying the witness's name with a foreign key hash"),
    "C10-7": ("C10", ["C10", "C11"], "parseBody decodes proof lines in place into bufio's read buffer (hashes alias the buffer)", "a non-empty proof and a body over 4096 bytes or delivered in more than one read"),
    "C10-8": ("C10", ["C10", "C04"], "same size + empty proof returns (prevRaw, nil) without re-signing", "an accepted checkpoint, then the same size and root with different extension lines"),
    "C13-7": ("C13", ["C13"], "submitToWitness marks errors matching context.Canceled/DeadlineExceeded as permanent (inspects the error, not its own context)", "a per-request timeout from the witness or the log while the feeder's context is alive"),
    "C13-8": ("C13", ["C13"], "FeedOnce verifies a whitespace-trimmed copy of the checkpoint but submits the raw bytes", "a correctly signed checkpoint followed by stray whitespace"),
    "C15-7": ("C15", ["C15"], "DistributeOnce collects failed logs with failed := d.logs[:0]; append (in-place filter over the configured list)", "two DistributeOnce calls on one Distributor; in the first a failure after an earlier success"),
    "C15-8": ("C15", ["C15"], "distributeForLog verifies with note.Open + signedBy instead of log.ParseCheckpoint (origin and body checks lost)", "two logs sharing one key with the witness returning the other's checkpoint, or a re-signed note with a foreign origin / non-checkpoint body"),
    "C18-7": ("C18", ["C18", "C14"], "sumdb fetchProof assigns sdb = sdb.WithContext(ctx) to the captured client; later /latest fetches use a cancelled context", "periodic mode and at least three distinct log sizes in one FeedLog call"),
    "C18-8": ("C18", ["C18", "C19"], "HTTPFetcher reuses a mutex-guarded buffer; the error return after a failed body read leaves the mutex held", "one 200 response whose body read fails (truncated/lying length), then any further fetch on that client"),
    "C09-7": ("C09", ["C09", "C08", "C04"], "the equal-size rule compares the signed TEXT with the stored text instead of the root hashes", "stored = submitted = old size, identical roots, a body that is not byte-identical (other extension lines)"),
    "C09-8": ("C09", ["C09", "C08"], "proof-length pre-check with a bound computed in floating point (ceil(log2(float64(size)))+1)", "a submitted size just above a large power of two (2^k + d, k >= 49, small d), an odd stored size, a correct proof"),
}
SEEDS2.update(SEEDS5)
SEEDS6 = {
    "C06-9": ("C06", ["C06"], "monolith.go removes <db_file>-journal/-wal/-shm before opening the database", "a kill that leaves a hot rollback journal (inside the commit of a multi-page checkpoint), then a restart of the real program"),
    "C06-10": ("C06", ["C06"], "sql Init() sets PRAGMA journal_mode = MEMORY", "a kill inside the commit of a multi-page checkpoint, or before commit of one larger than the page cache"),
    "C11-9": ("C11", ["C11", "C10"], "parseBody collects ReadLine slices up to the separator and decodes them afterwards (sub-slices of bufio's reused buffer)", "old line + proof beyond 4096 bytes, or a body delivered in several short reads"),
    "C11-10": ("C11", ["C11"], "hand-rolled decimal parse with an off-by-one overflow cutoff (n > cutoff)", "old 18446744073709551620..29 (2^64+4..13) and that 19-digit prefix followed by more digits"),
    "C12-9": ("C12", ["C12", "C02"], "witness.parse: bytes.HasPrefix(raw, origin) without the newline replaces the exact origin comparison", "two logs sharing a key, one origin a proper prefix of the other, the longer one's checkpoint under the shorter one's ID"),
    "C12-10": ("C12", ["C12", "C05"], "(same mechanism as C12-5, written independently) inmemory store-wide write counter", "in-memory store, a complete update of log B between log A's WriteOps and Set"),
    "C14-9": ("C14", ["C14", "C07"], "sql writer: Set marks done first, Close skips Rollback when done (a failed INSERT leaks the transaction)", "one failed INSERT (e.g. a write-write collision with another connection) on the one-connection store"),
    "C14-10": ("C14", ["C14"], "Main: errgroup SetLimit(32) on the group whose members all run until the context ends", "32 or more long-running members (feeder logs + bastion + distributor)"),
    "C16-9": ("C16", ["C16"], "client reads bodies into a sync.Pool buffer and returns buf.Bytes() (aliases the pool)", "a result retained across another client call, or concurrent calls"),
    "C16-10": ("C16", ["C16", "C04"], "an accepted refresh with identical text is cosigned and returned but not stored", "a cosignature/v1 key and a refresh in a later second than the stored cosignature"),
    "C17-9": ("C17", ["C17", "C12"], "Main: fedLogs filters the configured list in place (logs[:0] + append); bastion and distributor get the damaged list", "polling on, a Feeder-none entry that is not last (shipped config), a bastion or distributor configured"),
    "C17-10": ("C17", ["C17"], "config.NewLog appends '/' to the URL string; the Rekor treeID becomes 'N/'", "a shipped Rekor entry fed against a server that serves shards by treeID"),
    "C19-9": ("C19", ["C19"], "(same mechanism as C19-5, written independently) rekor []*shardInfo, JSON null element dereferenced", "a 200 JSON reply with a literal null in inactiveShards before any matching shard"),
    "C19-10": ("C19", ["C19", "C14"], "(same family as C19-6) feeder.Run returns the per-cycle context's error when a cycle is still failing as its interval ends", "continuous mode, witness holding a checkpoint, a cycle that fails for the whole interval"),
    "C20-9": ("C20", ["C20"], "the split-view alarm (comparison, log line, counter) raised before the old-size checks; the return stays after them", "one request with two anomalies: a wrong old size AND a same-size forked checkpoint"),
    "C20-10": ("C20", ["C20"], "a first-submission Set that fails although a checkpoint can now be read re-enters Update (attempt counted twice)", "two overlapping first submissions for one log, both reading 'nothing stored' before either writes"),
}
SEEDS2.update(SEEDS6)
SEEDS7 = {
    "C01-9": ("C01", ["C01", "C09"], "(as C01-1, written independently) Update as one switch with the size-0 case ahead of the equal-size root comparison", "stored size 0, then a log-signed size-0 checkpoint with another root"),
    "C01-10": ("C01", ["C03", "C05", "C07", "C01"], "cosignAndStore with named results: a failed Set returns the already-cosigned checkpoint with the error", "a lost in-memory race or a write fault, then an update on the other branch; the observer must look at bytes returned next to an error"),
    "C02-9": ("C02", ["C02", "C12"], "parse() fast path: a note that verifies under the witness's own cosignature/v1 key skips the log-signature and origin checks", "a cosignature/v1 witness key and bytes the witness returned for log A submitted for another configured log"),
    "C02-10": ("C02", ["C02", "C04", "C09"], "cheap-checks-first reorder: peek() without verification; the size-0 branch still signs and stores the unverified note", "stored size-0 checkpoint, then any note with the right origin, size 0, same root, old 0, empty proof and a text the log never signed"),
    "C03-9": ("C03", ["C03", "C07"], "Update with named results: a deferred closure copies write.Close()'s error into err after Set committed (sql Close swallows ErrTxDone)", "an accepted update whose Close() reports an error after a successful Set"),
    "C03-10": ("C03", ["C03", "C07"], "a failed Set on a same-size refresh returns the freshly signed bytes with the error", "a refresh whose Set fails, a cosignature/v1 key, and the clock in a later second than the stored cosignature"),
    "C04-9": ("C04", ["C05", "C04"], "all accepting paths return w.GetCheckpoint(logID) (a re-read after the commit) instead of the signed bytes", "update B built on A's new size running entirely between A's commit and A's return"),
    "C04-10": ("C04", ["C04", "C10"], "(as C04-7, written independently) same-size refresh re-signs the stored note", "an accepted update, then a same-size same-root refresh with other extension lines"),
    "C05-9": ("C05", ["C05"], "(as C05-5, written independently) inmemory check under RLock, store under a separately taken Lock", "truly parallel Set calls of writers holding the same snapshot"),
    "C05-10": ("C05", ["C05", "C03"], "signAndStore returns the cosigned checkpoint together with the storage error", "the ordinary both-read-then-both-write conflict on the in-memory store; the observer must look at bytes returned next to an error"),
    "C07-9": ("C07", ["C07"], "isNotFound helper also accepts errors.Is(err, fs.ErrNotExist) as 'nothing stored'", "a read-latest fault that is or wraps ENOENT / os.ErrNotExist at a position where a checkpoint is stored"),
    "C07-10": ("C07", ["C07"], "a same-size refresh logs a failed Set and returns (signed, nil)", "a refresh whose write fails and whose returned bytes differ from the stored ones (cosignature/v1 key, later second)"),
    "C08-9": ("C08", ["C08"], "signChkpt counts signature lines before signing (+1, assuming one witness signer) instead of re-opening the cosigned note", "two witness signers and an accepted update with exactly 98 extra signature lines"),
    "C08-10": ("C08", ["C08", "C09"], "(as C09-7) same-size check compares the signed text", "a stored checkpoint with extension lines and an honest same-size probe with other or no extension lines"),
    "C09-9": ("C09", ["C09", "C08"], "(as C09-7, written independently) equal-size rule compares the whole body", "same size, same root, different extension lines"),
    "C09-10": ("C09", ["C07", "C09"], "sql getLatestCheckpoint maps every row.Scan error to NotFound", "SQL store, a stored checkpoint, a step-time read failure (locked database) inside the update, the write succeeding"),
    "C10-9": ("C10", ["C10"], "ErrInvalidProof wrapped with %w on the empty-tree path only; the bastion handler compares by identity", "witness holding a size-0 checkpoint, the same checkpoint resubmitted with old 0 and a non-empty proof"),
    "C10-10": ("C10", ["C10"], "handleUpdate emits every signature line whose NAME equals the witness's (verified or not)", "a log-valid checkpoint with an extra line named like the witness under a foreign key hash"),
    "C13-9": ("C13", ["C13"], "the witness-ahead check computes int64(submit) - int64(latest)", "witness and log sizes 2^63 or more apart"),
    "C13-10": ("C13", ["C13"], "%v -> %w on the feeder's error wraps: a collaborator error carrying a backoff.PermanentError ends the retry loop", "a transient failure whose chain contains *backoff.PermanentError"),
    "C15-9": ("C15", ["C15"], "witness signature counted by key NAME only", "a log key with the same name as the witness key (different key)"),
    "C15-10": ("C15", ["C15"], "URL built via u.Path = path.Join(..., url.PathEscape(name)): the name is escaped twice", "a witness name containing a character PathEscape rewrites"),
    "C18-9": ("C18", ["C18"], "(as C18-6 family) GetData resolves the path as a URL reference against the base (drops the last segment of a base without trailing slash)", "a SumDB mounted under a path prefix"),
    "C18-10": ("C18", ["C18", "C14"], "fetchProof re-reads /latest and proves to the log's CURRENT head instead of the checkpoint being fed", "the log publishes a larger checkpoint between the feeder's read of /latest and fetchProof"),
}
SEEDS2.update(SEEDS7)
SEEDS8 = {
    "C06-11": ("C06", ["C06", "C07"], "sql WriteOps reserves a row with an auto-committed INSERT OR IGNORE before the transaction; Set becomes UPDATE; NULL chkpt maps to NotFound", "a first-use update killed between the reservation and the COMMIT (a listed log without a checkpoint)"),
    "C06-12": ("C06", ["C16", "C04", "C06"], "a refresh (same size, same root) is cosigned and acknowledged but no longer stored", "a cosignature/v1 key and a refresh in a later second; then a read or a restart"),
    "C11-11": ("C11", ["C11"], "parseBody parses the old size with strconv.ParseUint(s, 0, 64) (base prefixes, underscores, leading zero = octal)", "a non-canonical numeric token: 0x10, 0b101, 1_000, 010, 08"),
    "C11-12": ("C11", ["C11", "C10"], "parseBody rewritten over io.ReadAll; CRLF normalised on the WHOLE body, checkpoint included", "a checkpoint containing the byte pair CR LF"),
    "C12-11": ("C12", ["C05", "C12"], "inmemory copy-on-write map cloned from the snapshot the writer saw at WriteOps time", "in-memory store, successful updates of two DIFFERENT logs overlapping at storage-operation granularity"),
    "C12-12": ("C12", ["C07", "C12"], "(as C14-9) sql writer done flag: a failed INSERT leaks the transaction", "SQL store, a fault at the Exec inside Set, then any later request for any log"),
    "C14-11": ("C14", ["C14"], "inmemory Init() re-allocates the map (witness.New calls Init on every start)", "in-memory storage and a restart of Main over the same store object"),
    "C14-12": ("C14", ["C14", "C19"], "a same-size different-root checkpoint makes the feeder return a permanent ErrSplitView that Run returns; Main's errgroup takes everything down", "a validly signed checkpoint of exactly the witnessed size with a different root"),
    "C16-11": ("C16", ["C16"], "client wraps each request in WithTimeout + defer cancel(): the context is cancelled before the body is read", "a stored checkpoint larger than the transport's 4 KiB read buffer over a real connection (racy on loopback)"),
    "C16-12": ("C16", ["C07", "C16"], "sql Set retries COMMIT and treats sql.ErrTxDone as success", "SQL store and a COMMIT that fails once"),
    "C17-11": ("C17", ["C17"], "(as C17-5, written independently) Main decodes the config with KnownFields(true)", "running Main on the shipped configuration"),
    "C17-12": ("C17", ["C17", "C12"], "AsLogMap refuses a key configured for more than one log (the three Rekor shards share one)", "AsLogMap over the whole shipped logs.yaml"),
    "C19-11": ("C19", ["C19"], "(as C19-5/-9, written independently) rekor nil shard pointer", "a literal null in inactiveShards"),
    "C19-12": ("C19", ["C19"], "pixel feeder converts to.Hash with tlog.Hash(to.Hash) (slice-to-array conversion panics on a short hash)", "pixel feeder, witness holding a checkpoint, a log-signed larger checkpoint below 2^62 whose root is shorter than 32 bytes"),
    "C20-11": ("C20", ["C20", "C10"], "deferred outcome classifier by error identity + the size-0 non-empty-proof refusal wrapped with %w", "stored size 0, the same checkpoint resubmitted with a non-empty proof"),
    "C20-12": ("C20", ["C20"], "(as C20-9, written independently) split-view alarm hoisted above the old-size checks", "one request that is both stale/oversized in old size and a same-size fork"),
}
SEEDS2.update(SEEDS8)
# round 9: twelve fresh agents for the properties that had ten stored changes; same brief as round 8
SEEDS9 = {
    "C15-11": ("C15", ["C15"], "distributor: verification skipped when sha256(raw) was verified in the previous round (digest set swapped at round end, key ignores the log)", "one Distributor over two rounds: log A valid in round N, the witness answers log B with A's bytes in round N+1"),
    "C15-12": ("C15", ["C15"], "distributor PUT body re-serialised from the opened note (text + verified signatures only)", "a valid witnessed checkpoint carrying an additional signature line by an unknown key (e.g. another witness's cosignature)"),
    "C07-11": ("C07", ["C07"], "(as C07-1, written independently) sql.getLatestCheckpoint as Query+rows.Next without rows.Err: a row-fetch error is read as NotFound", "a committed checkpoint and a driver error from Rows.Next of the checkpoint SELECT during an update carrying a fork as first use"),
    "C07-12": ("C07", ["C07"], "witness: Set goes through a store() helper that retries once on a fresh WriteOps; the retry handle's deferred Close sits after the error check of its GetLatest", "two consecutive faults inside one Update (Set on the first handle, GetLatest on the retry handle) on a one-connection SQL store, observed through the next operation"),
    "C08-11": ("C08", ["C08", "C07", "C05"], "witness keeps a per-log cache of the parsed latest checkpoint that is written before write.Set and never compared with the stored bytes", "an accepted checkpoint, then a valid update whose Set fails (fault or lost race), then an honest update on the same Witness instance"),
    "C08-12": ("C08", ["C08"], "witness.parse refuses raw checkpoints above 16 KiB - for the stored (cosigned) one too, which is longer than what was admitted by one cosignature line", "an accepted log-signed checkpoint whose length lies in (16384-117, 16384], then any update"),
    "C02-11": ("C02", ["C12", "C02", "C17"], "omniwitness AsLogMap shares one verifier per key NAME (text before the first '+') instead of per key string", "a configuration with two logs whose keys have the same name but different key material"),
    "C02-12": ("C02", ["C02", "C12"], "witness.parse consults a cache sha256(stored cosigned bytes) -> parsed checkpoint that is not bound to the log ID", "an accepted update on log A, then exactly the returned cosigned bytes submitted for another configured log B while they are A's latest"),
    "C13-11": ("C13", ["C13"], "feeder: errors whose chain contains context.Canceled/DeadlineExceeded are made backoff.Permanent (the error is looked at, not ctx.Err())", "a transient collaborator failure wrapping context.DeadlineExceeded (a per-request timeout) while the feeder's own context is live"),
    "C13-12": ("C13", ["C13"], "feeder.submitToWitness: latestCP hoisted out of the retried closure and only assigned on a non-empty answer", "within one FeedOnce: an attempt seeing size N>0 that fails transiently, then an attempt in which the witness reports no checkpoint (old size N and proof from N sent instead of 0/empty)"),
    "C10-11": ("C10", ["C10", "C04"], "witness.Update: same size + same root + empty proof returns the stored cosigned checkpoint without signing/storing the submitted text", "a stored checkpoint, then a same-tree resubmission with a different note text (extension line, leading zero)"),
    "C10-12": ("C10", ["C10"], "bastion handler: 409 body built with strconv.AppendInt(int64(size))", "a witnessed checkpoint of size >= 2^63 (first use), then a stale old size"),
    "C01-11": ("C01", ["C01", "C09"], "(as C01-1, written independently) Update's chain becomes a switch whose size-0 arm precedes the equal-size root comparison", "a stored size-0 checkpoint, then a log-signed size-0 checkpoint with another root"),
    "C01-12": ("C01", ["C05", "C01"], "(as C01-2, written independently) inmemory.expectAndWrite simplified: 'read nothing but one exists now' is no longer a conflict", "two overlapping first-use updates of one log with different branches on the in-memory store"),
    "C03-11": ("C03", ["C03", "C05", "C07"], "witness.Update runs write.Set in a goroutine and returns ctx.Err() when the context ends first; the abandoned Set still commits", "a valid update whose context is cancelled while Set is in flight (slow/blocking storage)"),
    "C03-12": ("C03", ["C03", "C07", "C06"], "sql store: write-through cache for reader.GetLatest filled by a defer placed before tx.Commit (runs when Commit fails too)", "SQL backend, a valid update whose COMMIT fails, then a read through GetCheckpoint"),
    "C04-11": ("C04", ["C04", "C10"], "witness.Update: the size-0 block returns the stored cosigned checkpoint (prevRaw) instead of cosigning and storing the submitted note", "a log first witnessed at size 0, then an accepted size-0 resubmission later in time or with an extension line"),
    "C04-12": ("C04", ["C02", "C04", "C12"], "(as C02-12, written independently) witness.parse consults a cache of verified cosigned bytes keyed by sha256 only", "two logs; the exact cosigned bytes currently stored for A submitted for B"),
    "C09-11": ("C09", ["C07", "C09", "C08", "C05"], "(as C08-11, written independently) per-log memo of the parsed stored checkpoint recorded before write.Set", "an accept path whose Set fails (fault or conflict), then a retry judged against the memo instead of the store"),
    "C09-12": ("C09", ["C09", "C08", "C20"], "witness.Update: the equal-size branch compares note texts instead of root hashes", "stored checkpoint, then same size/root with another extension line or a size spelled 05 (refused as root mismatch)"),
    "C05-11": ("C05", ["C05", "C16"], "witness: GetCheckpoint served from a sync.Map cache that Update fills AFTER write.Set returns", "chained accepted updates A:1->2, B:2->4 where B runs entirely between the application of A's Set and A's cache store; afterwards reads return size 2"),
    "C05-12": ("C05", ["C05"], "inmemory.expectAndWrite returns nil early when the stored bytes already equal the bytes to write (before the conflict check)", "two byte-identical requests overlapping on one log with a deterministic (non-timestamped) witness signature"),
    "C18-11": ("C18", ["C18", "C14"], "sumdb feeder: SaveTiles fills a per-FeedLog cache keyed by (level, index); ReadTiles serves an entry when its stored width 'covers' the request, and the full-tile marker -1 compares below every partial width", "one long-lived FeedLog: a proof that reads a tile while partial, then growth so that the same tile is full and needed again (100->200, 200->300)"),
    "C18-12": ("C18", ["C18", "C14", "C19"], "client HTTPFetcher remembers 404/410 tile paths in a 'gone' set and never asks for them again", "one 404 for a tile the proof needs (checkpoint visible before its tile), then an honest server"),
    "C17-13": ("C17", ["C17"], "(as C17-2/-5/-11, written independently) Main decodes the embedded configuration with KnownFields(true); shipped entries carry PublicKeyType", "running Main itself on the shipped configuration"),
    "C17-14": ("C17", ["C17"], "rekor feeder refuses base URLs whose path does not end in '/'; the shipped Rekor URLs have an empty path", "starting the real Rekor feeder from the exact shipped URL strings"),
    "C20-13": ("C20", ["C20"], "(as C20-8, written independently) the split-view alarm (log line + counter) is de-duplicated by the last conflicting root per log", "the same conflicting checkpoint refused twice for one log with no other conflicting root in between"),
    "C20-14": ("C20", ["C20", "C03"], "Update returns ctx.Err() up front - above the known-log lookup and the attempt counter", "an update naming a known log whose context is already cancelled or past its deadline"),
    "C16-13": ("C16", ["C16", "C04"], "(as C16-2, written independently) witness read cache refreshed by the store() helper of two of the three write paths; the size-0 resubmission path keeps its inline Set", "a log held at size 0, a second accepted size-0 update with different cosigned bytes, then a GET"),
    "C16-14": ("C16", ["C16"], "bundled client reads response bodies through io.LimitReader(64 KiB) without noticing the cut", "a stored cosigned checkpoint larger than 65536 bytes"),
    "C19-13": ("C19", ["C19", "C10"], "bastion handler: the 404 branch labels the bastion_response counter with the client-supplied first checkpoint line instead of \"unknown\"", "the repository's Prometheus binding installed (as with -metrics_listen) and a well-formed request for an unconfigured origin that is not valid UTF-8: CounterVec.With panics, the request goes unanswered"),
    "C19-14": ("C19", ["C19"], "rekor feeder: proof hashes decoded with hex.Decode into 32-byte windows of one buffer", "rekor feeder with a witnessed checkpoint and a log-signed larger one whose proof JSON has a hash element longer than 64 hex characters: index out of range, nothing recovers"),
    "C11-13": ("C11", ["C11"], "(as C11-1, written independently) parseBody collects ReadLine slices and decodes after the blank line", "short reads or more than 4096 bytes of proof lines"),
    "C11-14": ("C11", ["C11"], "Proof.Unmarshal reuses the receiver's storage without re-slicing to the new length", "Unmarshal into a Proof value that already holds a longer list"),
    "C12-13": ("C12", ["C12", "C02"], "(as C02-12/C04-12, written independently) verified-checkpoint cache keyed by sha256 of the raw note only", "a checkpoint accepted under A, then the same bytes (or the cosigned ones) under B's ID while B holds nothing"),
    "C12-14": ("C12", ["C12", "C17"], "config.NewLog trims origin, key and URL before deriving the ID; AsLogMap and the bastion handler do not", "a configured origin with leading or trailing white space"),
    "C14-13": ("C14", ["C14", "C18"], "sumdb feeder: tileReader kept per FeedLog with a SaveTiles cache keyed by (tile height, index) - the level is not in the key", "one feeder lifetime: a proof reading the complete level-0 tile 0 (e.g. 255->256), then one reading the complete level-1 tile 0 (->65536)"),
    "C14-14": ("C14", ["C14", "C04", "C08"], "witness.signChkpt drops signers whose (name, key hash) already appears on the incoming note", "a log-signed checkpoint carrying a line with exactly the witness's key name and hash that is not valid for this body (e.g. a republished old cosignature)"),
    "C06-13": ("C06", ["C06", "C05", "C07"], "witness: identical resubmission in the same second answered from a memo of the last cosignature that is written BEFORE write.Set (dropped again if Set fails)", "two overlapping requests with the same bytes X: A has signed X but not committed, B (old size = X.size) is acknowledged without any storage operation, then a kill before A's commit"),
    "C06-14": ("C06", ["C05", "C06", "C01"], "sql: WriteOps without a transaction; Set is a compare-and-swap UPDATE for known logs but INSERT OR REPLACE for a first write", "two overlapping first-use submissions for one log (both read 'not found'); the larger is acknowledged, then overwritten by the smaller"),
}
SEEDS2.update(SEEDS9)
# round 10: twelve fresh agents, the round-9 brief plus "look off the beaten path" (less-travelled files, unusual but legal inputs,
# sequences of three or more steps) and a list of what NOT to propose again
SEEDS10 = {
    "C19-15": ("C19", ["C19", "C15"], "distributor: on 429/503 with a numeric Retry-After header it sleeps that many seconds (time.Sleep, no cap, context ignored) before returning the error", "a distributor answering 429 or 503 with Retry-After: 86400"),
    "C19-16": ("C19", ["C19", "C10"], "(as C19-13, written independently) bastion handler early exits go through reject(): the unknown-log branch labels the metric with the request's origin line", "Prometheus binding active and an unconfigured origin that is not valid UTF-8"),
    "C15-13": ("C15", ["C15"], "distributor target built with base.JoinPath(fmt.Sprintf(path, logID, name)) instead of url.PathEscape(name)", "a witness key name containing a percent escape (wit.example%2Fw1) or a dot segment"),
    "C15-14": ("C15", ["C15"], "distributor treats every 2xx answer as success", "a distributor answering 201, 202, 204 or 206"),
    "C13-13": ("C13", ["C13"], "(as C13-11, written independently) feeder: causes matching context.Canceled/DeadlineExceeded are wrapped in backoff.Permanent", "a transient failure wrapping a context error while FeedOnce's own context is live"),
    "C13-14": ("C13", ["C13", "C14"], "omniwitness.witnessAdapter remembers the last cosigned checkpoint per log (set on successful Update, dropped on error) and answers GetLatestCheckpoint from it", "a successful feed through the adapter, then the witness advances by another route (direct Update, second replica, bastion), then the next feed cycle"),
    "C10-13": ("C10", ["C10", "C12"], "bastion handler derives the log ID from strings.TrimSpace(first line)", "a checkpoint whose origin line is a configured origin plus leading/trailing white space (unknown origin: 404 expected, 403 answered)"),
    "C10-14": ("C10", ["C10", "C04"], "(as C10-1/-11, written independently) same size + same root + empty proof returns the stored cosigned checkpoint", "an accepted checkpoint, then the same tree with other extension lines"),
    "C05-13": ("C05", ["C05", "C16"], "sql store: reader.GetLatest served from a sync.Map that a writer fills in Close() with what it committed in Set", "update A (5->8) committed but not yet closed, update B (8->9) runs to completion and publishes 9, then A's Close publishes 8: readers see 9 then 8"),
    "C05-14": ("C05", ["C05"], "inmemory: the write snapshot is kept per log (base[logID], set at WriteOps) instead of per handle", "three requests on one log: A opens and reads S5; B runs fully and stores S7; C merely opens (re-basing the shared snapshot); A's Set then stores a checkpoint verified against S5"),
    "C07-13": ("C07", ["C07"], "(as C07-1/-11, written independently) getLatestCheckpoint as Query+rows.Next without rows.Err", "a driver Rows.Next error during the SELECT of an update on a log with a committed checkpoint"),
    "C07-14": ("C07", ["C07"], "sql WriteOps takes the write lock early with a no-op UPDATE after Begin and returns its error without rolling back", "a driver-level fault on the first statement execution of a write transaction on a one-connection store"),
    "C16-15": ("C16", ["C16", "C03"], "inmemory store: per-log slot with a writer mutex created in WriteOps; Logs() lists the slots", "a first submission that verifies (so WriteOps is reached) but is refused before Set - e.g. a log-signed checkpoint with 100 signature lines: the log list gains a phantom entry"),
    "C16-16": ("C16", ["C16"], "(as C16-1/-14, written independently) client reads through io.LimitReader(64 KiB)", "a stored cosigned checkpoint larger than 65536 bytes"),
    "C20-15": ("C20", ["C20", "C09"], "witness.Update refuses proofs longer than 64 elements with ErrInvalidProof before VerifyConsistency - without the invalid-consistency counter", "a growth-path update with a valid signature whose proof has more than 64 elements"),
    "C20-16": ("C20", ["C20"], "per-log counters pre-bound inside the sync.Once from the FIRST witness's KnownLogs; unknown IDs fall back to a silent no-op", "a later witness in the same process that knows a log the first witness did not"),
    "C17-15": ("C17", ["C17", "C12"], "(as C02-2, written independently) AsLogMap caches the whole LogInfo (incl. Origin) per public-key string", "entries sharing one key string (the Rekor shards): the map files the first shard's origin under the others' IDs"),
    "C17-16": ("C17", ["C17", "C14"], "config.NewLog wraps the verifier in a by-value struct with a func field; Main keys a map by config.Log", "Main with a configuration that has a polled (non-'none') feeder: runtime panic 'hash of unhashable type'"),
    "C14-15": ("C14", ["C14", "C18"], "client.tilePath rewritten with a strings.Builder that writes the least-significant base-1000 group first (x234/001 for 1234)", "a sumdb log needing a tile with index >= 1000 (size above 256000)"),
    "C14-16": ("C14", ["C07", "C14"], "(as C07-1/-11/-13, written independently) getLatestCheckpoint as Query+rows.Next without rows.Err", "SQLite storage and a driver error stepping the checkpoint row in the poll in which the log serves a fork"),
    "C12-15": ("C12", ["C12", "C17"], "an empty Origin defaults to the key name - in AsLogMap before the ID is derived, in config.NewLog after", "a configured entry with an empty or omitted Origin"),
    "C12-16": ("C12", ["C05", "C12"], "inmemory WriteOps takes its readWriter from a sync.Pool; the object is released at Set and again at Close", "three overlapping updates to three logs: A.WriteOps, A.Set, C.WriteOps, A.Close, D.WriteOps, C.Set - C's checkpoint lands under D's ID"),
    "C04-13": ("C04", ["C16", "C04", "C05"], "HTTP server: getCheckpoint goes through a singleflight.Group keyed by log ID", "three actors: GET 1 slow at the storage read, an update accepted meanwhile, GET 2 started after the update returned joins GET 1's flight and gets the pre-update bytes"),
    "C04-14": ("C04", ["C05", "C04", "C06"], "sql store: read cache filled by readers on a miss and dropped by WriteOps right after Begin (never touched by Set/commit)", "SQL storage with more than one pooled connection and a read inside an accepted update's WriteOps..Set window: the old checkpoint is re-cached and served afterwards"),
}
SEEDS2.update(SEEDS10)
ROUND9 = {'C01', 'C02', 'C03', 'C04', 'C05', 'C07', 'C08', 'C09', 'C10', 'C13', 'C15', 'C18'}
ROUND5 = {'C01', 'C02', 'C03', 'C04', 'C05', 'C07', 'C08', 'C09', 'C10', 'C13', 'C15', 'C18'}
SRC = {}
for _sid in SEEDS2:
    _pid, _k = _sid.split("-")
    if int(_k) >= 13:
        SRC[_sid] = f"/tmp/seed9/{_pid}/_out/{int(_k) - 12}"
        continue
    if int(_k) >= 11:
        SRC[_sid] = f"/tmp/seed9/{_pid}/_out/{int(_k) - 10}" if _pid in ROUND9 else f"/tmp/seed8/{_pid}/_out/{int(_k) - 10}"
        continue
    if int(_k) >= 9:
        SRC[_sid] = f"/tmp/seed7/{_pid}/_out/{int(_k) - 8}" if _pid in ROUND5 else f"/tmp/seed6/{_pid}/_out/{int(_k) - 8}"
        continue
    SRC[_sid] = f"/tmp/seed2/{_pid}/_out/{int(_k) - 2}" if int(_k) <= 4 else (f"/tmp/seed3/{_pid}/_out/{int(_k) - 4}" if int(_k) <= 6 else (f"/tmp/seed5/{_pid}/_out/{int(_k) - 6}" if _pid in ROUND5 else f"/tmp/seed4/{_pid}/_out/{int(_k) - 6}"))
for _sid in SEEDS10:
    _pid, _k = _sid.split("-")
    SRC[_sid] = f"/tmp/seed10/{_pid}/_out/{1 if int(_k) % 2 == 1 else 2}"
SEEDS.update(SEEDS2)


def sh(cmd, cwd=None, timeout=3600):
    r = subprocess.run(cmd, cwd=cwd, env=ENV, shell=isinstance(cmd, str), stdout=subprocess.PIPE, stderr=subprocess.STDOUT, text=True, timeout=timeout, errors="replace")
    return r.returncode, r.stdout


def store():
    os.makedirs(SEEDED, exist_ok=True)
    for sid, (prop, checks, what, needs) in SEEDS.items():
        pid, k = sid.split("-")
        src = SRC.get(sid, f"/tmp/seed/{pid}/out/{k}")
        if not os.path.exists(os.path.join(src, "patch.diff")):
            for alt in (f"/tmp/seed/{pid}/_out/{k}", f"/tmp/seed/{pid}/.out/{k}"):
                if os.path.exists(os.path.join(alt, "patch.diff")):
                    src = alt
        if not os.path.exists(os.path.join(src, "patch.diff")):
            print("missing", sid)
            continue
        dst = os.path.join(SEEDED, sid)
        os.makedirs(dst, exist_ok=True)
        shutil.copy(os.path.join(src, "patch.diff"), os.path.join(dst, "patch.diff"))
        # .txt so that the go tool never tries to compile it inside /verif
        shutil.copy(os.path.join(src, "demo_test.go"), os.path.join(dst, "demo_test.go.txt"))
        if os.path.exists(os.path.join(src, "notes.md")):
            shutil.copy(os.path.join(src, "notes.md"), os.path.join(dst, "author_notes.md"))
        mp = os.path.join(dst, "meta.json")
        meta = json.load(open(mp)) if os.path.exists(mp) else {}
        meta.update({"id": sid, "breaks_property": prop, "change": what, "needs_to_manifest": needs, "checks_expected_to_catch": checks,
                     "origin": "written by an independent sub-agent that was given only the text of the property and its own scratch worktree of /repo (nothing from /verif)"})
        json.dump(meta, open(mp, "w"), indent=1)
        print("stored", sid)


def evaluate(ids, tier="quick", seed=None, confirm=True):
    for sid in ids:
        dst = os.path.join(SEEDED, sid)
        mp = os.path.join(dst, "meta.json")
        meta = json.load(open(mp))
        wt = f"/tmp/seedwt.{os.getpid()}"
        sh(["git", "-C", "/repo", "worktree", "add", "--detach", wt, "HEAD"])
        try:
            if not confirm and "confirmed" in meta:
                sh(["git", "apply", os.path.join(dst, "patch.diff")], cwd=wt)
            demo = open(os.path.join(dst, "demo_test.go.txt")).read()
            m = re.search(r"copy to:\s*`?([^\s`]+)", demo[:600], re.I)
            dest = m.group(1).rstrip("/") if m else ""
            tests = "|".join(re.findall(r"func (Test\w+)\(", demo))
            if confirm or "confirmed" not in meta:
                demo_path = os.path.join(wt, dest, "zz_seed_demo_test.go")
                res = {}
                shutil.copy(os.path.join(dst, "demo_test.go.txt"), demo_path)
                rc, _ = sh(f"go test -vet=off -count=1 -run '^({tests})$' ./{dest}/", cwd=wt)
                res["demo_without_change"] = "pass" if rc == 0 else "FAIL"
                os.remove(demo_path)
                rc, out = sh(["git", "apply", os.path.join(dst, "patch.diff")], cwd=wt)
                res["patch_applies"] = rc == 0
                rc, _ = sh("go build ./...", cwd=wt)
                res["builds"] = rc == 0
                rc, out = sh("go test -vet=off -count=1 ./...", cwd=wt)
                res["existing_suite_with_change"] = "pass" if rc == 0 else "FAIL"
                shutil.copy(os.path.join(dst, "demo_test.go.txt"), demo_path)
                rc, _ = sh(f"go test -vet=off -count=1 -run '^({tests})$' ./{dest}/", cwd=wt)
                res["demo_with_change"] = "fail (as intended)" if rc != 0 else "PASSES (seed invalid)"
                os.remove(demo_path)
                res["commands"] = [f"git apply patch.diff", "go build ./...", "go test -vet=off -count=1 ./...", f"go test -vet=off -count=1 -run '^({tests})$' ./{dest}/  (with and without the change)"]
                meta["confirmed"] = res
            det = meta.get("detection", {})
            for chk in meta["checks_expected_to_catch"]:
                t0 = time.time()
                env = dict(ENV, VERIF_REPO=wt)
                if seed is not None:
                    env["VERIF_SEED"] = str(seed)
                r = subprocess.run([os.path.join(VERIF, "check"), chk, tier], env=env, stdout=subprocess.PIPE, stderr=subprocess.STDOUT, text=True, errors="replace")
                lines = [l for l in r.stdout.splitlines() if "violated" in l or l.startswith("VIOLATION")]
                det[f"{chk} {tier}" + (f" seed={seed}" if seed is not None else "")] = {"exit": r.returncode, "caught": r.returncode == 1, "seconds": round(time.time() - t0, 1),
                                        "first_report": (lines[0].strip()[:400] if lines else "")}
                print(sid, chk, tier, "exit", r.returncode, f"{time.time()-t0:.0f}s")
            meta["detection"] = det
            meta["evaluated_at_verif_commit"] = sh(["git", "-C", VERIF, "log", "--format=%h", "-1"])[1].strip()
            json.dump(meta, open(mp, "w"), indent=1)
        finally:
            sh(["git", "-C", "/repo", "worktree", "remove", "--force", wt])


if __name__ == "__main__":
    if len(sys.argv) < 2:
        print(__doc__)
        sys.exit(2)
    if sys.argv[1] == "store":
        store()
    elif sys.argv[1] == "eval":
        tier = "quick"
        ids = [a for a in sys.argv[2:] if not a.startswith("--")]
        if "--thorough" in sys.argv:
            tier = "thorough"
        seed = None
        for a in sys.argv[2:]:
            if a.startswith("--seed="):
                seed = int(a.split("=")[1])
        evaluate(ids or sorted(os.listdir(SEEDED)), tier, seed, confirm="--noconfirm" not in sys.argv)
