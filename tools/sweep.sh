#!/bin/bash
# usage: tools/sweep.sh <tier> <seed> [seed...]   runs every check of MANIFEST.json at the given seeds on /repo as it is
# and prints one line per (property, seed); any non-zero exit is shown with its key lines.
cd "$(dirname "$0")/.."
TIER=$1; shift
./setup.sh >/dev/null 2>&1
for SEED in "$@"; do
  for P in $(python3 -c "import json; print(' '.join(c['property_id'] for c in json.load(open('MANIFEST.json'))['checks']))"); do
    T0=$(date +%s)
    OUT=$(VERIF_SEED=$SEED ./check $P $TIER 2>&1); RC=$?
    echo "seed=$SEED $P $TIER exit=$RC $(( $(date +%s) - T0 ))s $(echo "$OUT" | grep '^property=' | tail -1)"
    if [ $RC -ne 0 ]; then echo "$OUT" | grep -E "violated|VIOLATION|INCONCLUSIVE|KNOWN" | cut -c1-600 | head -8; fi
  done
done
echo SWEEP-DONE
