#!/bin/bash
# Re-runs every quick check on /repo as it is (VERIF_SEED=1) so that the committed evidence files describe clean-tree runs,
# and validates MANIFEST.json and every evidence file against the schemas.
cd "$(dirname "$0")/.."
FAIL=0
for P in $(python3 -c "import json; print(' '.join(c['property_id'] for c in json.load(open('MANIFEST.json'))['checks']))"); do
  OUT=$(VERIF_SEED=1 ./check $P quick 2>&1); RC=$?
  echo "$P exit=$RC $(echo "$OUT" | grep '^property=' | tail -1)"
  echo "$OUT" | grep -E "^KNOWN-FINDING" 
  [ $RC -ne 0 ] && { FAIL=1; echo "$OUT" | tail -5; }
done
python3-vt - <<'PY'
import json, jsonschema, glob
jsonschema.validate(json.load(open('/verif/MANIFEST.json')), json.load(open('/root/.vp/MANIFEST.schema.json')))
sch = json.load(open('/root/.vp/EVIDENCE.schema.json'))
for f in sorted(glob.glob('/verif/evidence/*.json')):
    jsonschema.validate(json.load(open(f)), sch)
print("manifest and", len(glob.glob('/verif/evidence/*.json')), "evidence files validate")
PY
exit $FAIL
