#!/bin/bash
# usage: tools/seedeval.sh <seed-dir (contains patch.diff demo_test.go)> <prop[,prop]> [tier]
# Confirms a seeded mutation independently (applies, builds, existing suite passes, demo fails with / passes without)
# and then runs the named /verif checks against it. Prints a one-line summary per stage.
set -u
SD=$1; PROPS=$2; TIER=${3:-quick}
WT=/tmp/seedwt.$$
export GOFLAGS=-mod=mod GOPROXY=off GOSUMDB=off GOTOOLCHAIN=local
git -C /repo worktree add --detach $WT HEAD >/dev/null 2>&1 || { echo "worktree failed"; exit 2; }
trap 'git -C /repo worktree remove --force $WT >/dev/null 2>&1' EXIT
DEST=$(head -5 $SD/demo_test.go | grep -io 'copy to:* *[^ ]*' | head -1 | sed 's/.*: *//; s/`//g')
DEST=${DEST%/}
[ -z "$DEST" ] && { echo "no copy-to header"; exit 2; }
RUNPAT=$(grep -o 'func Test[A-Za-z0-9_]*' $SD/demo_test.go | sed 's/func //' | paste -sd'|')
cp $SD/demo_test.go $WT/$DEST/zz_seed_demo_test.go
(cd $WT && go test -vet=off -count=1 -run "^($RUNPAT)\$" ./$DEST/ >/tmp/seedeval.$$.log 2>&1 && echo "demo-without-change: PASS" || { echo "demo-without-change: FAIL"; tail -5 /tmp/seedeval.$$.log; })
rm $WT/$DEST/zz_seed_demo_test.go
(cd $WT && git apply $SD/patch.diff) || { echo "patch does not apply"; exit 2; }
(cd $WT && go build ./... >/tmp/seedeval.$$.log 2>&1 && echo "build: OK" || { echo "build: FAIL"; tail -5 /tmp/seedeval.$$.log; })
(cd $WT && go test -vet=off -count=1 ./... >/tmp/seedeval.$$.log 2>&1 && echo "suite-with-change: PASS" || { echo "suite-with-change: FAIL"; grep -v "no test files" /tmp/seedeval.$$.log | grep -v '^ok' | tail -8; })
cp $SD/demo_test.go $WT/$DEST/zz_seed_demo_test.go
(cd $WT && go test -vet=off -count=1 -run "^($RUNPAT)\$" ./$DEST/ >/tmp/seedeval.$$.log 2>&1 && echo "demo-with-change: PASS (bad)" || echo "demo-with-change: FAIL (good)")
rm $WT/$DEST/zz_seed_demo_test.go
rm -f /tmp/seedeval.$$.log
for P in ${PROPS//,/ }; do
  T0=$(date +%s)
  OUT=$(VERIF_REPO=$WT /verif/check $P $TIER 2>&1)
  RC=$?
  echo "check $P $TIER: exit $RC in $(( $(date +%s) - T0 ))s; $(echo "$OUT" | grep -c '^VIOLATION') violation line(s)"
  echo "$OUT" | grep -E "violated|VIOLATION" | head -3 | cut -c1-400
done
