//go:build verif

package main

import (
	"os"

	"github.com/transparency-dev/witness/omniwitness"
)

// Only present in the binary the checks build (overlay + build tag): lets a check point
// the real program at a generated log configuration instead of the embedded one. Nothing
// else about the program is changed.
func init() {
	if p := os.Getenv("VERIF_CONFIG_LOGS"); p != "" {
		b, err := os.ReadFile(p)
		if err != nil {
			panic("VERIF_CONFIG_LOGS: " + err.Error())
		}
		omniwitness.ConfigLogs = b
	}
}
