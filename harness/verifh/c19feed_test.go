//go:build verif

package verifh

import (
	"bufio"
	"bytes"
	"context"
	"crypto/sha256"
	"encoding/hex"
	"encoding/json"
	"errors"
	"fmt"
	"io"
	"net/http"
	"os"
	"os/exec"
	"path/filepath"
	"regexp"
	"runtime"
	"strconv"
	"strings"
	"sync"
	"testing"
	"time"

	"github.com/transparency-dev/formats/log"
	"github.com/transparency-dev/witness/internal/config"
	"github.com/transparency-dev/witness/internal/distribute/rest"
	"github.com/transparency-dev/witness/internal/feeder"
	"github.com/transparency-dev/witness/internal/feeder/pixelbt"
	"github.com/transparency-dev/witness/internal/feeder/rekor"
	"github.com/transparency-dev/witness/internal/feeder/serverless"
	"github.com/transparency-dev/witness/internal/feeder/sumdb"
	"github.com/transparency-dev/witness/internal/feeder/tiles"
	"github.com/transparency-dev/witness/internal/verifh/vlib"
	"github.com/transparency-dev/witness/internal/witness"
	"golang.org/x/mod/sumdb/tlog"
	"google.golang.org/grpc/codes"
	"google.golang.org/grpc/status"
	"pgregory.net/rapid"
)

// ---------------------------------------------------------------------------------
// C19 (feeder / distributor half) — hostile log servers and distributors

// Answer is how the stub server answers one request.
type Answer struct {
	Kind   string `json:"kind"`   // valid | truncated | oversized | random | empty | reset | huge-length | no-length | stall
	Status int    `json:"status"` // 200, 204, 301, 404, 500; 429 and 503 come with Retry-After: 86400
}

// HostileCase is one feeder (or distributor) cycle against a hostile server.
type HostileCase struct {
	Feeder      string   `json:"feeder"`       // serverless | sumdb | pixel | rekor | tiles | distributor
	WitnessSize int64    `json:"witness_size"` // what the (real) witness holds on the honest trunk; -1 nothing
	CpSize      uint64   `json:"cp_size"`
	CpRootLen   int      `json:"cp_root_len"` // 32 normal; 0, 5, 33 hostile
	CpSigner    string   `json:"cp_signer"`   // log | stranger
	CpRealTree  bool     `json:"cp_real"`     // root is the real root of the honest tree (sizes <= 2^16 only)
	Script      []Answer `json:"script"`      // answers for request 0,1,2,...; the last repeats
	DeadlineMs  int      `json:"deadline_ms"`
	Periodic    bool     `json:"periodic,omitempty"` // run the feeder in polling mode (interval 120 ms) for 5 intervals: it must keep going until its context ends
	JSONShape   int      `json:"json_shape,omitempty"` // rekor: 0 honest JSON, 1-8 well-formed JSON with hostile content, 9-12 honest log information with proofs whose hex elements have hostile lengths
}

const hostileOrigin = "hostile.example/log"

var hostileKey = vlib.NewKey("hostilekey", "hostile-log")

func (c *HostileCase) origin() string {
	if c.Feeder == "sumdb" {
		return "go.sum database tree"
	}
	return hostileOrigin
}

func (c *HostileCase) checkpoint() []byte {
	br := vlib.RootBranch("H", 0)
	var root []byte
	if c.CpRealTree && c.CpSize <= 1<<16 {
		r := br.Root(c.CpSize)
		root = r[:]
	} else {
		h := sha256.Sum256([]byte(fmt.Sprintf("hostile root %d", c.CpSize)))
		root = append(h[:], h[:]...)[:c.CpRootLen]
	}
	text := vlib.CheckpointText(c.origin(), c.CpSize, root, nil)
	k := hostileKey
	if c.CpSigner == "stranger" {
		k = vlib.NewKey("hostilekey", "stranger")
	}
	return vlib.Note(text, k.SigLine(text))
}

type hostileServer struct {
	mu    sync.Mutex
	c     *HostileCase
	n     int
	paths []string
}

func (s *hostileServer) RoundTrip(r *http.Request) (*http.Response, error) {
	if err := r.Context().Err(); err != nil {
		return nil, err // like a real transport: a request whose context is over is not sent
	}
	s.mu.Lock()
	i := s.n
	s.n++
	s.paths = append(s.paths, r.URL.Path)
	s.mu.Unlock()
	a := Answer{Kind: "valid", Status: 200}
	if len(s.c.Script) > 0 {
		a = s.c.Script[min(i, len(s.c.Script)-1)]
	}
	if a.Kind == "reset" {
		return nil, errors.New("stub: connection reset by peer")
	}
	if a.Kind == "stall" {
		// a server that accepts the request and never answers: only the request's context
		// (cycle deadline or the client's own timeout) ends this
		<-r.Context().Done()
		return nil, r.Context().Err()
	}
	body := s.validBody(r)
	switch a.Kind {
	case "truncated":
		body = body[:len(body)/2]
	case "oversized":
		body = append(body, bytes.Repeat([]byte("A"), 2<<20)...)
	case "random":
		h := sha256.Sum256([]byte(r.URL.Path))
		body = bytes.Repeat(h[:], 1+int(h[0])%40)
	case "empty":
		body = nil
	}
	hdr := http.Header{}
	if a.Status == 301 {
		hdr.Set("Location", "/elsewhere")
	}
	if a.Status == 429 || a.Status == 503 {
		// push-back with a pacing hint no client should obey blindly: a day
		hdr.Set("Retry-After", "86400")
	}
	resp := &http.Response{StatusCode: a.Status, Status: strconv.Itoa(a.Status), Header: hdr, Body: io.NopCloser(bytes.NewReader(body)), Request: r, ContentLength: int64(len(body))}
	switch a.Kind {
	case "huge-length":
		// the header promises 2^62 bytes, the connection ends after a few: what a client
		// sees is this length and a body that stops with "unexpected EOF"
		resp.ContentLength = 1 << 62
		resp.Body = io.NopCloser(io.MultiReader(bytes.NewReader(body), errReader{io.ErrUnexpectedEOF}))
	case "no-length":
		resp.ContentLength = -1
	}
	if resp.ContentLength >= 0 {
		hdr.Set("Content-Length", strconv.FormatInt(resp.ContentLength, 10))
	}
	return resp, nil
}

type errReader struct{ err error }

func (e errReader) Read([]byte) (int, error) { return 0, e.err }

// validBody answers the request as an honest server of this feeder's format would, as far
// as the harness can (checkpoints always; tiles from a real small tree where possible).
func (s *hostileServer) validBody(r *http.Request) []byte {
	p := r.URL.Path
	cp := s.c.checkpoint()
	br := vlib.RootBranch("H", 0)
	realSize := s.c.CpSize
	if realSize > 1<<16 {
		realSize = 1 << 16
	}
	switch {
	case strings.HasSuffix(p, "/latest"), strings.HasSuffix(p, "/checkpoint"), strings.HasSuffix(p, "/checkpoint.txt"):
		return cp
	case strings.HasSuffix(p, "/api/v1/log"):
		good := map[string]any{"signedTreeHead": string(cp), "treeID": "1234", "treeSize": 1, "rootHash": "00", "inactiveShards": []any{}}
		shard := map[string]any{"signedTreeHead": string(cp), "treeID": "1234", "treeSize": 1, "rootHash": "00"}
		var v any = good
		// JSON-shaped hostility (well-formed JSON, unexpected content), selected by the case
		switch s.c.JSONShape {
		case 1: // the wanted shard hides behind a null element
			v = map[string]any{"signedTreeHead": "x", "treeID": "999", "inactiveShards": []any{nil, shard}}
		case 2: // only nulls
			v = map[string]any{"signedTreeHead": nil, "treeID": nil, "treeSize": nil, "inactiveShards": []any{nil, nil}}
		case 3: // wrong types
			v = map[string]any{"signedTreeHead": 12, "treeID": 1234, "inactiveShards": "x"}
		case 4: // empty object
			v = map[string]any{}
		case 5: // inactive shard matches, active does not
			v = map[string]any{"signedTreeHead": "junk", "treeID": "1", "inactiveShards": []any{map[string]any{"treeID": "7"}, shard}}
		case 6: // top-level array / null
			return []byte("[null]")
		case 7:
			return []byte("null")
		case 8: // huge numbers
			return []byte(`{"treeID":"1234","treeSize":1e400,"signedTreeHead":"` + "x" + `","inactiveShards":[{"treeSize":-9223372036854775809}]}`)
		}
		b, _ := json.Marshal(v)
		return b
	case strings.HasSuffix(p, "/api/v1/log/proof"):
		var hs []string
		if s.c.WitnessSize > 0 && uint64(s.c.WitnessSize) < realSize {
			for _, h := range br.Consistency(uint64(s.c.WitnessSize), realSize) {
				hs = append(hs, hex.EncodeToString(h))
			}
		}
		var pv any = map[string]any{"hashes": hs}
		switch s.c.JSONShape {
		case 1, 2:
			pv = map[string]any{"hashes": []any{nil, "zz", "00"}}
		case 3:
			pv = map[string]any{"hashes": []any{123, true}}
		case 4:
			pv = map[string]any{"hashes": nil}
		case 6:
			return []byte("[]")
		case 7:
			return []byte("null")
		// 9-12: the log information is honest, the proof is well-formed JSON of well-formed
		// hex strings - of lengths no hash has
		case 9: // 33 bytes (the first element, and the last one of an otherwise honest proof)
			long := append(append([]string{strings.Repeat("ab", 33)}, hs...), strings.Repeat("cd", 33))
			pv = map[string]any{"hashes": long}
		case 10: // 64 bytes each
			pv = map[string]any{"hashes": []any{strings.Repeat("00", 64), strings.Repeat("ff", 64)}}
		case 11: // empty, odd length, one byte, 31 bytes
			pv = map[string]any{"hashes": []any{"", "0", "abc", "00", strings.Repeat("11", 31)}}
		case 12: // one element of 100 KiB, then 300 of 32 bytes
			many := []any{strings.Repeat("0f", 100<<10)}
			for i := 0; i < 300; i++ {
				many = append(many, strings.Repeat("42", 32))
			}
			pv = map[string]any{"hashes": many}
		}
		b, _ := json.Marshal(pv)
		return b
	case strings.Contains(p, "/tile/"):
		rel := p[strings.Index(p, "/tile/")+1:]
		if t, err := tlog.ParseTilePath(rel); err == nil && t.L >= 0 {
			if uint64(t.N*int64(1<<uint(t.H))+int64(t.W))<<(uint(t.H*t.L)) <= realSize && t.H*t.L < 60 {
				data, err := tlog.ReadTileData(t, branchHashReader{br})
				if err == nil {
					return data
				}
			}
			return bytes.Repeat([]byte{0x42}, 32*t.W)
		}
		// tessera-style tile (tile/<level>/<index>[.p/<width>]): concatenated node hashes
		if m := tesseraTileRE.FindStringSubmatch(rel); m != nil {
			level, _ := strconv.ParseUint(m[1], 10, 64)
			n, _ := strconv.ParseUint(strings.ReplaceAll(strings.ReplaceAll(m[2], "x", ""), "/", ""), 10, 64)
			width := uint64(256)
			if m[3] != "" {
				width, _ = strconv.ParseUint(m[3], 10, 64)
			}
			if level <= 6 && width >= 1 && width <= 256 && n < 1<<40 && (n*256+width)<<(8*level) <= realSize {
				var buf bytes.Buffer
				for i := uint64(0); i < width; i++ {
					h := br.NodeAt(uint8(8*level), n*256+i)
					buf.Write(h[:])
				}
				return buf.Bytes()
			}
		}
		return bytes.Repeat([]byte{0x42}, 32*7)
	}
	return []byte("hello")
}

var tesseraTileRE = regexp.MustCompile(`^tile/(\d+)/((?:x\d{3}/)*\d{3})(?:\.p/(\d+))?$`)

type realAdapter struct{ w *witness.Witness }

func (a realAdapter) GetLatestCheckpoint(ctx context.Context, logID string) ([]byte, error) {
	cp, err := a.w.GetCheckpoint(logID)
	if err != nil && status.Code(err) == codes.NotFound {
		return nil, os.ErrNotExist
	}
	return cp, err
}

func (a realAdapter) Update(ctx context.Context, logID string, oldSize uint64, newCP []byte, proof [][]byte) ([]byte, error) {
	return a.w.Update(ctx, logID, oldSize, newCP, proof)
}

type hostileResult struct {
	Class  string `json:"class"` // ok | error | panic | hang
	Detail string `json:"detail,omitempty"`
	Reqs   int    `json:"reqs"`
	Past   bool   `json:"past"` // got past the first validation step (checkpoint verified / request reached the witness)
}

func runHostileInProcess(c *HostileCase) hostileResult {
	hc := &vlib.HistCase{Prop: "C19", Storage: "mem", Seed: "H", Logs: []vlib.LogSpec{{Origin: c.origin(), KeyLabel: "hostile-log", KeyName: "hostilekey"}}, WKeys: vlib.ProdWKeys}
	e := vlib.NewEnv(hc)
	w, _, closer, err := e.NewWitness()
	if err != nil {
		return hostileResult{Class: "harness", Detail: err.Error()}
	}
	defer closer()
	id := e.LogIDs[0]
	if c.WitnessSize >= 0 {
		r := e.Branches[0].Root(uint64(c.WitnessSize))
		text := vlib.CheckpointText(c.origin(), uint64(c.WitnessSize), r[:], nil)
		if _, err := w.Update(context.Background(), id, 0, vlib.Note(text, hostileKey.SigLine(text)), nil); err != nil {
			return hostileResult{Class: "harness", Detail: "plant: " + err.Error()}
		}
	}
	attempts := vlib.Metrics.Snapshot("witness_update_request")
	srv := &hostileServer{c: c}
	client := &http.Client{Transport: srv, Timeout: 2 * time.Second} // like every shipped binary, the client has its own timeout
	url := "http://hostile.example/base/"
	if c.Feeder == "rekor" {
		url = "http://hostile.example/base/?treeID=1234"
	}
	lc, err := config.NewLog(c.origin(), hostileKey.VKey(), url)
	if err != nil {
		return hostileResult{Class: "harness", Detail: err.Error()}
	}
	dl := time.Duration(c.DeadlineMs) * time.Millisecond
	interval := time.Duration(0)
	if c.Periodic && c.Feeder != "distributor" {
		interval = 120 * time.Millisecond
		dl = 5 * interval
	}
	started := time.Now()
	ctx, cancel := context.WithTimeout(context.Background(), dl)
	defer cancel()
	type ret struct {
		err error
		pan any
		stk string
	}
	done := make(chan ret, 1)
	go func() {
		var r ret
		defer func() {
			if p := recover(); p != nil {
				r.pan = p
				buf := make([]byte, 8192)
				r.stk = string(buf[:runtime.Stack(buf, false)])
			}
			done <- r
		}()
		wa := realAdapter{w}
		var ff func(context.Context, config.Log, feeder.Witness, *http.Client, time.Duration) error
		switch c.Feeder {
		case "serverless":
			ff = serverless.FeedLog
		case "sumdb":
			ff = sumdb.FeedLog
		case "pixel":
			ff = pixelbt.FeedLog
		case "rekor":
			ff = rekor.FeedLog
		case "tiles":
			ff = tiles.FeedLog
		case "distributor":
			d, err := rest.NewDistributor("http://hostile.example", client, []config.Log{lc}, vlib.WitnessKey{K: e.WKeys[1].K, Kind: vlib.WKCosig}.Verifier(), wa)
			if err != nil {
				r.err = err
				return
			}
			r.err = d.DistributeOnce(ctx)
			return
		}
		r.err = ff(ctx, lc, wa, client, interval)
	}()
	grace := 20 * time.Second
	select {
	case r := <-done:
		past := len(vlib.Diff(attempts, vlib.Metrics.Snapshot("witness_update_request"))) > 0 || srv.n > 1
		if r.pan != nil {
			return hostileResult{Class: "panic", Detail: fmt.Sprintf("%v\n%s", r.pan, r.stk), Reqs: srv.n, Past: past}
		}
		if interval > 0 && time.Since(started) < dl-60*time.Millisecond {
			return hostileResult{Class: "ended-early", Detail: fmt.Sprintf("polling feeder returned after %v although its context had %v left: %v", time.Since(started).Round(time.Millisecond), (dl - time.Since(started)).Round(time.Millisecond), r.err), Reqs: srv.n, Past: true}
		}
		if r.err != nil {
			return hostileResult{Class: "error", Detail: trimErr(r.err), Reqs: srv.n, Past: past}
		}
		return hostileResult{Class: "ok", Reqs: srv.n, Past: past}
	case <-time.After(dl + grace):
		buf := make([]byte, 1<<20)
		n := runtime.Stack(buf, true)
		return hostileResult{Class: "hang", Detail: hangExcerpt(string(buf[:n])), Reqs: srv.n, Past: true}
	}
}

func trimErr(err error) string {
	s := err.Error()
	if len(s) > 160 {
		s = s[:160]
	}
	return s
}

// hangExcerpt keeps the goroutines that are on-CPU or inside feeder/tlog code.
func hangExcerpt(dump string) string {
	var keep []string
	for _, g := range strings.Split(dump, "\n\n") {
		if strings.Contains(g, "sumdb/tlog") || strings.Contains(g, "internal/feeder") || strings.Contains(g, "distribute/rest") {
			if len(g) > 1500 {
				g = g[:1500]
			}
			keep = append(keep, g)
		}
	}
	return strings.Join(keep, "\n--\n")
}

// child: runs cases sequentially, one result line per case; exits right after a hang
// because a spinning goroutine cannot be stopped.
func init() {
	childMains["c19feed"] = func() int {
		b, err := os.ReadFile(os.Getenv("VERIF_C19_CASES"))
		if err != nil {
			return 3
		}
		var cases []*HostileCase
		if json.Unmarshal(b, &cases) != nil {
			return 3
		}
		from, _ := strconv.Atoi(os.Getenv("VERIF_C19_FROM"))
		out := bufio.NewWriter(os.Stdout)
		for i := from; i < len(cases); i++ {
			fmt.Fprintf(out, "START %d\n", i)
			out.Flush()
			r := runHostileInProcess(cases[i])
			jb, _ := json.Marshal(r)
			fmt.Fprintf(out, "DONE %d %s\n", i, jb)
			out.Flush()
			if r.Class == "hang" {
				return 4
			}
		}
		return 0
	}
}

// runHostileBatch runs the cases in child processes under a watchdog.
func runHostileBatch(cases []*HostileCase) ([]hostileResult, error) {
	results := make([]hostileResult, len(cases))
	dir := os.Getenv("VERIF_SCRATCH")
	if dir == "" {
		dir = os.TempDir()
	}
	f, err := os.CreateTemp(dir, "c19cases-*.json")
	if err != nil {
		return nil, err
	}
	defer os.Remove(f.Name())
	b, _ := json.Marshal(cases)
	_, _ = f.Write(b)
	f.Close()
	from := 0
	for from < len(cases) {
		cmd := exec.Command(os.Args[0])
		cmd.Env = append(os.Environ(), "VERIF_CHILD=c19feed", "VERIF_C19_CASES="+f.Name(), "VERIF_C19_FROM="+strconv.Itoa(from))
		var se bytes.Buffer
		cmd.Stderr = &se
		so, err := cmd.StdoutPipe()
		if err != nil {
			return nil, err
		}
		if err := cmd.Start(); err != nil {
			return nil, err
		}
		lines := make(chan string, 64)
		go func() {
			sc := bufio.NewScanner(so)
			sc.Buffer(make([]byte, 4<<20), 4<<20)
			for sc.Scan() {
				lines <- sc.Text()
			}
			close(lines)
		}()
		cur := -1
		next := from
	loop:
		for {
			select {
			case l, ok := <-lines:
				if !ok {
					break loop
				}
				if strings.HasPrefix(l, "START ") {
					cur, _ = strconv.Atoi(strings.TrimPrefix(l, "START "))
				} else if strings.HasPrefix(l, "DONE ") {
					parts := strings.SplitN(l, " ", 3)
					i, _ := strconv.Atoi(parts[1])
					var r hostileResult
					_ = json.Unmarshal([]byte(parts[2]), &r)
					results[i] = r
					next = i + 1
					cur = -1
				}
			case <-time.After(90 * time.Second):
				_ = cmd.Process.Kill()
				if cur >= 0 {
					results[cur] = hostileResult{Class: "hang", Detail: "child made no progress for 90s (watchdog kill)"}
					next = cur + 1
				}
				break loop
			}
		}
		_ = cmd.Wait()
		if cur >= 0 && results[cur].Class == "" {
			// the child died in the middle of a case
			results[cur] = hostileResult{Class: "died", Detail: "the process exited while serving the cycle: " + lastLines(se.String(), 12)}
			next = cur + 1
		}
		if next == from {
			return nil, fmt.Errorf("child made no progress from case %d: %s", from, lastLines(se.String(), 8))
		}
		from = next
	}
	return results, nil
}

func lastLines(s string, n int) string {
	ls := strings.Split(strings.TrimSpace(s), "\n")
	if len(ls) > n {
		ls = ls[len(ls)-n:]
	}
	return strings.Join(ls, " | ")
}

var hostileSizes = []uint64{0, 1, 2, 7, 255, 256, 257, 65536, 1<<62 - 1, 1 << 62, 1<<62 + 1, 1<<63 - 1, 1 << 63, 1<<63 + 1, ^uint64(0)}

// f4Region: the SumDB and Pixel feeders build their proof with tlog.ProveTree, which
// never returns for sizes in (2^62, 2^63).
func f4Region(c *HostileCase) bool {
	return (c.Feeder == "sumdb" || c.Feeder == "pixel") && c.CpSize > 1<<62 && c.CpSize < 1<<63 && c.WitnessSize >= 1 && c.CpSigner == "log" && c.CpRootLen >= 0
}

func genHostile(rt *rapid.T) *HostileCase {
	c := &HostileCase{DeadlineMs: 350}
	c.Feeder = rapid.SampledFrom([]string{"serverless", "sumdb", "pixel", "rekor", "tiles", "distributor"}).Draw(rt, "feeder")
	c.WitnessSize = int64(rapid.SampledFrom([]int{-1, 0, 1, 3, 3, 3, 200, 256, 300}).Draw(rt, "wsize"))
	switch vlib.Uniform(rt, 3, "cpk") {
	case 0:
		c.CpSize = rapid.SampledFrom(hostileSizes).Draw(rt, "cpsize")
	case 1:
		c.CpSize = uint64(rapid.IntRange(0, 700).Draw(rt, "cpsize"))
		c.CpRealTree = true
	default:
		c.CpSize = rapid.Uint64().Draw(rt, "cpsize")
	}
	c.CpRootLen = rapid.SampledFrom([]int{32, 32, 32, 0, 5, 33}).Draw(rt, "rootlen")
	c.CpSigner = "log"
	if vlib.Pct(rt, 10, "stranger") {
		c.CpSigner = "stranger"
	}
	c.Periodic = vlib.Pct(rt, 20, "periodic")
	if c.Feeder == "rekor" && rapid.Bool().Draw(rt, "jsonhostile") {
		c.JSONShape = rapid.IntRange(1, 12).Draw(rt, "jsonshape")
	}
	n := rapid.IntRange(0, 5).Draw(rt, "nscript")
	for i := 0; i < n; i++ {
		c.Script = append(c.Script, Answer{
			Kind:   []string{"valid", "valid", "valid", "valid", "valid", "valid", "truncated", "truncated", "oversized", "oversized", "random", "random", "empty", "empty", "reset", "reset", "huge-length", "huge-length", "no-length", "no-length", "no-length", "stall"}[vlib.Uniform(rt, 22, "akind")],
			Status: rapid.SampledFrom([]int{200, 200, 200, 200, 204, 301, 404, 500, 429, 503}).Draw(rt, "astatus"),
		})
	}
	return c
}

const ruleC19feed = "scripts of hostile log-server / distributor behaviour (per request: valid, truncated, oversized 2 MiB, random, empty body, a Content-Length of 2^62 in front of a short body, no Content-Length, a server that never answers x status 200/204/301/404/500 and 429/503 with Retry-After: 86400 x connection reset; the HTTP client has a 2 s timeout of its own, as in the shipped binaries; log-signed checkpoints with sizes from {0,1,..,2^62-1,2^62,2^62+1,2^63-1,2^63,2^64-1,random} and roots of 0/5/32/33 bytes or real roots; for rekor also well-formed JSON with hostile content and proofs whose hex elements are 0, 1, 31, 33, 64 or 100 Ki bytes long or of odd length) for the serverless, sumdb, pixel, rekor and tiles feeders and the REST distributor, against a real witness that already holds a smaller honest checkpoint; executed in child processes under a watchdog; oracle: no panic, the process survives, and the cycle returns a result or an error within its context deadline + 20 s; non-trivial = the cycle got past its first validation step (a second request was made or the witness was asked to update); distinct by case hash"

func hostileHash(c *HostileCase) string {
	b, _ := json.Marshal(c)
	h := sha256.Sum256(b)
	return hex.EncodeToString(h[:8])
}

func checkHostile(c *HostileCase, r hostileResult) error {
	switch r.Class {
	case "ok", "error":
		return nil
	case "panic":
		return fmt.Errorf("%s cycle PANICKED: %s", c.Feeder, r.Detail)
	case "hang":
		return fmt.Errorf("%s cycle did not return %d ms + 20 s after it started (context deadline ignored); goroutines still busy:\n%s", c.Feeder, c.DeadlineMs, r.Detail)
	case "ended-early":
		return fmt.Errorf("%s feeder in polling mode stopped on its own while its context was alive (in the assembled service this cancels every other component): %s", c.Feeder, r.Detail)
	case "died":
		return fmt.Errorf("%s cycle killed the process: %s", c.Feeder, r.Detail)
	}
	return fmt.Errorf("harness: %s: %s", r.Class, r.Detail)
}

func TestC19Feeders(t *testing.T) {
	st := vlib.StatsFor("C19", "feeders", ruleC19feed)
	batch := 40
	rapid.Check(t, func(rt *rapid.T) {
		var cases []*HostileCase
		for i := 0; i < batch; i++ {
			c := genHostile(rt)
			if isKnown("F4") && f4Region(c) {
				st.Exclude("F4")
				continue
			}
			cases = append(cases, c)
		}
		// 8 children in parallel
		const par = 8
		results := make([]hostileResult, len(cases))
		var wg sync.WaitGroup
		var herr error
		var hmu sync.Mutex
		for p := 0; p < par; p++ {
			wg.Add(1)
			go func(p int) {
				defer wg.Done()
				var idx []int
				var sub []*HostileCase
				for i := p; i < len(cases); i += par {
					idx = append(idx, i)
					sub = append(sub, cases[i])
				}
				if len(sub) == 0 {
					return
				}
				rs, err := runHostileBatch(sub)
				if err != nil {
					hmu.Lock()
					herr = err
					hmu.Unlock()
					return
				}
				for k, i := range idx {
					results[i] = rs[k]
				}
			}(p)
		}
		wg.Wait()
		if herr != nil {
			t.Fatalf("harness: %v", herr)
		}
		for i, c := range cases {
			st.Record(hostileHash(c), results[i].Past, []string{c.Feeder + ":" + results[i].Class}, vlib.SampleOf(c))
		}
		for i, c := range cases {
			if err := checkHostile(c, results[i]); err != nil {
				vlib.SaveFailure("C19", "feeders", c, err)
				rt.Fatalf("C19 violated: %v", err)
			}
		}
	})
}

// TestC19Sizes: every feeder x every hostile size x witness sizes, no response scripting.
func TestC19Sizes(t *testing.T) {
	st := vlib.StatsFor("C19", "sizes", "exhaustive grid: 6 consumers x 15 hostile checkpoint sizes x root lengths {32,0,5,33} x witness holding {nothing, size 3}; "+ruleC19feed)
	var cases []*HostileCase
	for _, f := range []string{"serverless", "sumdb", "pixel", "rekor", "tiles", "distributor"} {
		for _, sz := range hostileSizes {
			for _, rl := range []int{32, 0, 5, 33} {
				for _, ws := range []int64{-1, 3} {
					c := &HostileCase{Feeder: f, WitnessSize: ws, CpSize: sz, CpRootLen: rl, CpSigner: "log", DeadlineMs: 300}
					if isKnown("F4") && f4Region(c) {
						st.Exclude("F4")
						continue
					}
					cases = append(cases, c)
				}
			}
		}
	}
	// polling mode: cycles that fail for their whole interval (a log-signed checkpoint the
	// witness refuses) must not end the feeder
	for _, f := range []string{"serverless", "sumdb", "pixel", "rekor", "tiles"} {
		cases = append(cases, &HostileCase{Feeder: f, WitnessSize: 3, CpSize: 9, CpRootLen: 32, CpSigner: "log", Periodic: true},
			&HostileCase{Feeder: f, WitnessSize: 3, CpSize: 9, CpRootLen: 32, CpSigner: "stranger", Periodic: true},
			&HostileCase{Feeder: f, WitnessSize: 300, CpSize: 7, CpRootLen: 32, CpSigner: "log", CpRealTree: true, Periodic: true})
	}
	// push-back with a Retry-After of a day: the cycle still ends at its own deadline
	for _, f := range []string{"serverless", "sumdb", "pixel", "rekor", "tiles", "distributor"} {
		for _, stc := range []int{429, 503} {
			cases = append(cases, &HostileCase{Feeder: f, WitnessSize: 3, CpSize: 9, CpRootLen: 32, CpSigner: "log", CpRealTree: true, DeadlineMs: 500, Script: []Answer{{Kind: "valid", Status: stc}}})
		}
	}
	for shape := 1; shape <= 12; shape++ {
		for _, ws := range []int64{-1, 3} {
			cases = append(cases, &HostileCase{Feeder: "rekor", WitnessSize: ws, CpSize: 9, CpRootLen: 32, CpSigner: "log", CpRealTree: true, DeadlineMs: 300, JSONShape: shape})
		}
	}
	shard, nshards := vlib.Shard()
	var mine []*HostileCase
	for i, c := range cases {
		if i%nshards == shard {
			mine = append(mine, c)
		}
	}
	const par = 12
	results := make([]hostileResult, len(mine))
	var wg sync.WaitGroup
	for p := 0; p < par; p++ {
		wg.Add(1)
		go func(p int) {
			defer wg.Done()
			var idx []int
			var sub []*HostileCase
			for i := p; i < len(mine); i += par {
				idx = append(idx, i)
				sub = append(sub, mine[i])
			}
			if len(sub) == 0 {
				return
			}
			rs, err := runHostileBatch(sub)
			if err != nil {
				for _, i := range idx {
					results[i] = hostileResult{Class: "harness", Detail: err.Error()}
				}
				return
			}
			for k, i := range idx {
				results[i] = rs[k]
			}
		}(p)
	}
	wg.Wait()
	for i, c := range mine {
		st.Record(hostileHash(c), results[i].Past, []string{c.Feeder + ":" + results[i].Class}, vlib.SampleOf(c))
	}
	for i, c := range mine {
		if err := checkHostile(c, results[i]); err != nil {
			vlib.SaveFailure("C19", "sizes", c, err)
			t.Fatalf("C19 violated: %v (case %+v)", err, *c)
		}
	}
	st.SetExhaustive(true)
}

// TestC19Known re-runs the recorded input of listed known findings.
func TestC19Known(t *testing.T) {
	if !isKnown("F4") {
		t.Skip("no known findings listed for C19")
	}
	st := vlib.StatsFor("C19", "known", "dedicated probes of listed known findings")
	c := &HostileCase{Feeder: "sumdb", WitnessSize: 3, CpSize: 1<<62 + 1, CpRootLen: 32, CpSigner: "log", DeadlineMs: 300}
	rs, err := runHostileBatch([]*HostileCase{c})
	if err != nil {
		t.Fatalf("harness: %v", err)
	}
	st.Record(hostileHash(c), true, []string{"known-probe:F4:" + rs[0].Class}, vlib.SampleOf(c))
	if rs[0].Class == "hang" {
		vlib.KnownFinding("C19", "F4: a log-signed checkpoint of size 2^62+1 makes the SumDB feeder spin inside tlog.ProveTree; the context deadline is ignored")
	}
}

func init() {
	r := func(raw json.RawMessage) error {
		var c HostileCase
		if err := json.Unmarshal(raw, &c); err != nil {
			return err
		}
		rs, err := runHostileBatch([]*HostileCase{&c})
		if err != nil {
			return nil // harness trouble is not a verdict
		}
		return checkHostile(&c, rs[0])
	}
	replayers["C19/feeders"] = r
	replayers["C19/sizes"] = r
}

var _ = filepath.Join
var _ = log.ID
