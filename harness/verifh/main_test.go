//go:build verif

package verifh

import (
	"encoding/json"
	"flag"
	"fmt"
	"os"
	"testing"

	"github.com/transparency-dev/witness/internal/verifh/vlib"
	"k8s.io/klog/v2"
)

// replayers maps "<prop>/<part>" to a function that re-runs executor+oracle on a saved
// case without involving rapid.
var replayers = map[string]func(raw json.RawMessage) error{}

func TestMain(m *testing.M) {
	vlib.InstallMetrics()
	// keep klog quiet: the witness logs an ERROR line for every root mismatch
	fs := flag.NewFlagSet("klog", flag.ContinueOnError)
	klog.InitFlags(fs)
	_ = fs.Set("logtostderr", "false")
	_ = fs.Set("alsologtostderr", "false")
	_ = fs.Set("stderrthreshold", "FATAL")
	klog.SetOutput(discard{})
	if os.Getenv("VERIF_CHILD") != "" {
		os.Exit(childMain())
	}
	code := m.Run()
	vlib.FlushStats()
	os.Exit(code)
}

type discard struct{}

func (discard) Write(p []byte) (int, error) { return len(p), nil }

// TestReplay re-runs the case in $VERIF_REPLAY.
func TestReplay(t *testing.T) {
	f, err := vlib.LoadReplay()
	if err != nil {
		t.Fatalf("cannot load replay: %v", err)
	}
	if f == nil {
		t.Skip("no VERIF_REPLAY")
	}
	r, ok := replayers[f.Prop+"/"+f.Part]
	if !ok {
		t.Skipf("no replayer for %s/%s in this binary", f.Prop, f.Part)
	}
	if err := r(f.Case); err != nil {
		fmt.Printf("REPLAY-FAIL property=%s part=%s: %v\n", f.Prop, f.Part, err)
		t.Fatalf("replay of %s/%s fails: %v", f.Prop, f.Part, err)
	}
	fmt.Printf("REPLAY-OK property=%s part=%s\n", f.Prop, f.Part)
}
