//go:build verif

package verifh

import (
	"os"
	"testing"

	"github.com/transparency-dev/witness/internal/verifh/vlib"
)

// replayers is the package's view of the shared replay registry.
var replayers = vlib.Replayers

func TestMain(m *testing.M) {
	vlib.InstallMetrics()
	vlib.QuietKlog()
	if os.Getenv("VERIF_CHILD") != "" {
		os.Exit(childMain())
	}
	code := m.Run()
	vlib.FlushStats()
	os.Exit(code)
}

// TestReplay re-runs the case in $VERIF_REPLAY.
func TestReplay(t *testing.T) {
	what, ran, err := vlib.RunReplay()
	if err != nil {
		t.Fatalf("replay of %s fails: %v", what, err)
	}
	if !ran {
		t.Skipf("nothing to replay in this binary (%s)", what)
	}
}
