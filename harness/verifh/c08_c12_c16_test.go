//go:build verif

package verifh

import (
	"bytes"
	"context"
	"encoding/json"
	"errors"
	"fmt"
	"io"
	"net/http"
	"net/http/httptest"
	"net/url"
	"os"
	"sort"
	"strings"
	"sync"
	"testing"

	"github.com/gorilla/mux"
	"github.com/transparency-dev/witness/api"
	wit_http "github.com/transparency-dev/witness/client/http"
	ihttp "github.com/transparency-dev/witness/internal/http"
	"github.com/transparency-dev/witness/internal/verifh/vlib"
	"pgregory.net/rapid"
)

// ---------------------------------------------------------------------------------
// C08 — an honest log can always move the witness forward

const ruleC08 = "arbitrary prior history of an honest log (refused forgeries, decorated notes up to the 100-signature-line limit, stale/forged witness lines, first checkpoint of size 0) followed by an honest probe per log (size >= current, old = current, correct proof, only the log's signature line) that must be accepted; non-trivial = prior history with >=1 accepted update and >=1 refused or decorated submission; distinct by case hash"

var profC08 = vlib.Profile{
	Prop: "C08", MinLogs: 1, MaxLogs: 2, MinOps: 1, MaxOps: 14,
	Storages: []string{"mem", "sql"}, MaxJump: 3000, OtherLogPct: 20, Decorate: 35, SharedKeys: true, AllowZero: true, MaxJunkSigs: 101, WKeySets: wkeySets,
	Weights: map[string]int{"grow": 34, "refresh": 8, "wrongold": 6, "badproof": 8, "replay": 6, "garbage": 6, "wrongkey": 6, "wrongorigin": 3, "unknownlog": 2, "smaller": 4, "decorated": 14, "zero": 3},
}

// probeOps are appended to the generated history: for every log an honest growth and
// an honest refresh.
func probeOps(c *vlib.HistCase, deltas []int64) []vlib.Op {
	var ops []vlib.Op
	for li := range c.Logs {
		for _, d := range deltas {
			ops = append(ops, vlib.Op{Kind: "update", Log: li, Note: "probe", Cp: vlib.CpSpec{Branch: -1, Size: vlib.SizeSpec{Rel: "cur", N: d}, Origin: -1, Signer: -1},
				Old: vlib.SizeSpec{Rel: "cur"}, Proof: vlib.ProofSpec{Kind: "correct"}})
		}
	}
	return ops
}

func runC08(c *vlib.HistCase, stats *vlib.Stats) (bool, []string, error) {
	e := vlib.NewEnv(c)
	t, closer, err := e.NewPlainTarget()
	if err != nil {
		return false, nil, fmt.Errorf("harness: %v", err)
	}
	defer closer()
	accepted, refusedOrDecorated := 0, 0
	var classes []string
	steps, err := e.Exec(t, vlib.RunOpts{AfterStep: func(e *vlib.Env, _ vlib.Target, st *vlib.Step) error {
		if st.Op.Note != "probe" {
			if st.Verdict == vlib.VAccepted {
				accepted++
				if len(st.Op.Cp.Extra) > 0 || len(st.Op.Cp.Ext) > 0 {
					refusedOrDecorated++
				}
			} else {
				refusedOrDecorated++
			}
			return nil
		}
		// an honest probe
		from := "none"
		if st.PreHeld.Present {
			from = "held"
			if st.PreHeld.ParseOK && st.PreHeld.Size == 0 {
				from = "held0"
			}
		}
		kind := "grow"
		if st.PreHeld.Present && st.PreHeld.ParseOK && st.PreHeld.Size == st.Req.CpSize {
			kind = "refresh"
		}
		f2 := st.PreHeld.Present && st.PreHeld.ParseOK && st.PreHeld.Size == 0 && st.Req.CpSize > 0
		if f2 && isKnown("F2") {
			stats.Exclude("F2")
			classes = append(classes, "probe:excluded-F2")
			if st.Verdict == vlib.VAccepted {
				return fmt.Errorf("known finding F2 no longer reproduces (growth from stored size 0 accepted): remove it from known_findings.txt")
			}
			return nil
		}
		classes = append(classes, "probe:"+kind+"-from-"+from+":"+st.Verdict)
		if st.Verdict != vlib.VAccepted {
			return fmt.Errorf("honest probe (%s from %s, size %d -> %d, old %d, %d proof hashes) refused: %s (%v)", kind, from, st.PreHeld.Size, st.Req.CpSize, st.Req.Old, len(st.Req.Proof), st.Verdict, st.Err)
		}
		sub, _, _ := vlib.SplitNote(st.Req.Cp)
		got, _, ok := vlib.SplitNote(st.Out)
		if !ok || got != sub {
			return fmt.Errorf("honest probe accepted but the result is not a cosigned copy of the probe text")
		}
		return nil
	}})
	_ = steps
	return accepted > 0 && refusedOrDecorated > 0, classes, err
}

func TestC08Hist(t *testing.T) {
	st := vlib.StatsFor("C08", "hist", ruleC08)
	rapid.Check(t, func(rt *rapid.T) {
		c := vlib.GenHist(rt, profC08)
		d1 := int64(rapid.IntRange(1, 9).Draw(rt, "probe_d1"))
		d2 := int64(rapid.SampledFrom([]int{1, 2, 31, 32, 33, 255, 256, 257, 1000, 4095, 4096, 65000}).Draw(rt, "probe_d2"))
		c.Ops = append(c.Ops, probeOps(c, []int64{0, d1, 0, d2})...)
		nt, classes, err := runC08(c, st)
		st.Record(c.Hash(), nt, classes, sampleOf(c))
		if err != nil {
			vlib.SaveFailure("C08", "hist", c, err)
			rt.Fatalf("C08 violated: %v", err)
		}
	})
}

// TestC08Pairs: every honest step a -> b with 0 <= a <= b <= N from a first-use state.
func TestC08Pairs(t *testing.T) {
	max := 24
	if os.Getenv("VERIF_TIER") == "thorough" {
		max = 96
	}
	st := vlib.StatsFor("C08", "pairs", fmt.Sprintf("exhaustive honest steps a -> b for all 0 <= a <= b <= %d (first use at a, then probe to b), mem and sql; non-trivial = a > 0", max))
	shard, nshards := shardOf()
	cell := 0
	for _, storage := range []string{"mem", "sql"} {
		for a := 0; a <= max; a++ {
			for b := a; b <= max; b++ {
				cell++
				if cell%nshards != shard {
					continue
				}
				c := &vlib.HistCase{Prop: "C08", Storage: storage, Seed: "A", Logs: []vlib.LogSpec{{Origin: "example.com/log", KeyLabel: "log0", KeyName: "logkey"}}, WKeys: vlib.ProdWKeys}
				c.Ops = append(c.Ops, vlib.Op{Kind: "update", Note: "plant", Cp: vlib.CpSpec{Branch: 0, Size: vlib.SizeSpec{Rel: "abs", Abs: uint64(a)}, Origin: -1, Signer: -1}, Old: vlib.SizeSpec{Rel: "abs"}, Proof: vlib.ProofSpec{Kind: "empty"}})
				c.Ops = append(c.Ops, vlib.Op{Kind: "update", Note: "probe", Cp: vlib.CpSpec{Branch: -1, Size: vlib.SizeSpec{Rel: "abs", Abs: uint64(b)}, Origin: -1, Signer: -1}, Old: vlib.SizeSpec{Rel: "cur"}, Proof: vlib.ProofSpec{Kind: "correct"}})
				_, classes, err := runC08(c, st)
				st.Record(c.Hash(), a > 0, classes, sampleOf(c))
				if err != nil {
					vlib.SaveFailure("C08", "pairs", c, err)
					t.Fatalf("C08 violated for %d -> %d on %s: %v", a, b, storage, err)
				}
			}
		}
	}
	st.SetExhaustive(true)
}

// TestC08Big: honest steps between sizes up to 2^40 on the synthetic tree.
func TestC08Big(t *testing.T) {
	st := vlib.StatsFor("C08", "big", "sampled honest steps a -> b -> c with sizes up to 2^40 (2^62 occasionally) on a synthetic tree (64 real leaves, then constant filler); non-trivial = a > 0")
	rapid.Check(t, func(rt *rapid.T) {
		gen := func(label string) uint64 {
			switch rapid.IntRange(0, 3).Draw(rt, label+"_k") {
			case 0:
				return uint64(rapid.IntRange(1, 70000).Draw(rt, label))
			case 1:
				sh := rapid.IntRange(1, 40).Draw(rt, label+"_sh")
				return uint64(1)<<uint(sh) + uint64(rapid.IntRange(-2, 2).Draw(rt, label+"_d"))
			case 2:
				return rapid.Uint64Range(1, 1<<40).Draw(rt, label)
			default:
				return rapid.Uint64Range(1, 1<<60).Draw(rt, label)
			}
		}
		a := gen("a")
		d1, d2 := gen("d1"), gen("d2")
		c := &vlib.HistCase{Prop: "C08", Storage: rapid.SampledFrom([]string{"mem", "sql"}).Draw(rt, "storage"), Seed: "B", Filler: 64,
			Logs: []vlib.LogSpec{{Origin: "example.com/log", KeyLabel: "log0", KeyName: "logkey"}}, WKeys: vlib.ProdWKeys}
		c.Ops = append(c.Ops, vlib.Op{Kind: "update", Note: "plant", Cp: vlib.CpSpec{Branch: 0, Size: vlib.SizeSpec{Rel: "abs", Abs: a}, Origin: -1, Signer: -1}, Old: vlib.SizeSpec{Rel: "abs"}, Proof: vlib.ProofSpec{Kind: "empty"}})
		for _, d := range []uint64{d1, 0, d2} {
			n := int64(d)
			if n < 0 || uint64(n) > 1<<60 {
				n = 1 << 40
			}
			c.Ops = append(c.Ops, vlib.Op{Kind: "update", Note: "probe", Cp: vlib.CpSpec{Branch: -1, Size: vlib.SizeSpec{Rel: "cur", N: n}, Origin: -1, Signer: -1}, Old: vlib.SizeSpec{Rel: "cur"}, Proof: vlib.ProofSpec{Kind: "correct"}})
		}
		_, classes, err := runC08(c, st)
		st.Record(c.Hash(), true, classes, sampleOf(c))
		if err != nil {
			vlib.SaveFailure("C08", "big", c, err)
			rt.Fatalf("C08 violated: %v", err)
		}
	})
}

// TestC08Known re-runs the recorded input of every listed known finding of C08 and
// prints the KNOWN-FINDING line while it still reproduces.
func TestC08Known(t *testing.T) {
	if !isKnown("F2") {
		t.Skip("F2 not listed")
	}
	st := vlib.StatsFor("C08", "known", "dedicated probes of listed known findings")
	c := &vlib.HistCase{Prop: "C08", Storage: "mem", Seed: "A", Logs: []vlib.LogSpec{{Origin: "example.com/log", KeyLabel: "log0", KeyName: "logkey"}}, WKeys: vlib.ProdWKeys}
	c.Ops = append(c.Ops, vlib.Op{Kind: "update", Note: "plant", Cp: vlib.CpSpec{Branch: 0, Size: vlib.SizeSpec{Rel: "abs", Abs: 0}, Origin: -1, Signer: -1}, Old: vlib.SizeSpec{Rel: "abs"}, Proof: vlib.ProofSpec{Kind: "empty"}})
	c.Ops = append(c.Ops, vlib.Op{Kind: "update", Note: "f2probe", Cp: vlib.CpSpec{Branch: 0, Size: vlib.SizeSpec{Rel: "abs", Abs: 5}, Origin: -1, Signer: -1}, Old: vlib.SizeSpec{Rel: "abs"}, Proof: vlib.ProofSpec{Kind: "empty"}})
	e := vlib.NewEnv(c)
	tg, closer, err := e.NewPlainTarget()
	if err != nil {
		t.Fatal(err)
	}
	defer closer()
	steps, err := e.Exec(tg, vlib.RunOpts{})
	if err != nil || len(steps) != 2 {
		t.Fatalf("harness: %v", err)
	}
	st.Record(c.Hash(), true, []string{"known-probe:F2:" + steps[1].Verdict}, sampleOf(c))
	if steps[1].Verdict != vlib.VAccepted {
		vlib.KnownFinding("C08", "F2: a witness holding a size-0 checkpoint refuses the honest growth 0 -> 5 (old 0, empty proof) with "+steps[1].Verdict+"; pinned by TestUpdate/...starting_from_tree_size_0_without_proof")
	} else {
		c2 := *c
		vlib.SaveFailure("C08", "known", &c2, errors.New("known finding F2 is listed but no longer reproduces; remove the entry"))
		t.Fatalf("known finding F2 no longer reproduces")
	}
}

// ---------------------------------------------------------------------------------
// C12 (isolation half) — interleaved vs alone

const ruleC12 = "independently generated per-log histories over 2-5 logs (some sharing a key), run interleaved and each alone on a fresh deterministic (legacy-signer) witness; per-step verdicts and final bytes must agree; non-trivial = >=2 logs with >=2 accepted updates each and >=1 refusal; distinct by case hash"

var profC12 = vlib.Profile{
	Prop: "C12", MinLogs: 2, MaxLogs: 5, MinOps: 6, MaxOps: 40,
	Storages: []string{"mem", "sql"}, MaxJump: 200, OtherLogPct: 0, Decorate: 10, SharedKeys: true, NoReplay: true, ECDSAPct: 20,
	WKeySets: [][]vlib.WKSpec{vlib.LegacyWKeys},
	Weights:  map[string]int{"grow": 40, "refresh": 8, "fork": 10, "wrongold": 6, "badproof": 8, "garbage": 4, "wrongkey": 6, "wrongorigin": 8, "smaller": 3, "decorated": 4, "mismatch": 3},
}

type isoObs struct {
	verdicts []string
	outs     [][]byte
	final    []byte
}

func runHistFor(c *vlib.HistCase, only int) (map[int]*isoObs, error) {
	cc := *c
	if only >= 0 {
		cc.Ops = nil
		for _, op := range c.Ops {
			if op.Log == only {
				cc.Ops = append(cc.Ops, op)
			}
		}
	}
	e := vlib.NewEnv(&cc)
	t, closer, err := e.NewPlainTarget()
	if err != nil {
		return nil, fmt.Errorf("harness: %v", err)
	}
	defer closer()
	obs := map[int]*isoObs{}
	steps, err := e.Exec(t, vlib.RunOpts{NoSnapshots: true})
	if err != nil {
		return nil, err
	}
	for _, st := range steps {
		o := obs[st.Op.Log]
		if o == nil {
			o = &isoObs{}
			obs[st.Op.Log] = o
		}
		o.verdicts = append(o.verdicts, st.Verdict)
		o.outs = append(o.outs, st.Out)
		// a checkpoint of another origin is never handed out for this ID
		if st.Out != nil && st.Op.Log >= 0 {
			h := e.ScanCheckpoint(st.Out)
			if !h.ParseOK || h.Origin != e.Case.Logs[st.Op.Log].Origin {
				return nil, fmt.Errorf("step %d: bytes returned for log %d (%q) carry origin %q", st.Index, st.Op.Log, e.Case.Logs[st.Op.Log].Origin, h.Origin)
			}
		}
	}
	for i, id := range e.LogIDs {
		o := obs[i]
		if o == nil {
			o = &isoObs{}
			obs[i] = o
		}
		if b, err := t.GetCheckpoint(id); err == nil {
			o.final = b
			h := e.ScanCheckpoint(b)
			if !h.ParseOK || h.Origin != e.Case.Logs[i].Origin {
				return nil, fmt.Errorf("log %d (%q) holds a checkpoint of origin %q", i, e.Case.Logs[i].Origin, h.Origin)
			}
		}
	}
	return obs, nil
}

func runC12(c *vlib.HistCase) (bool, []string, error) {
	inter, err := runHistFor(c, -1)
	if err != nil {
		return false, nil, err
	}
	busy, refusals := 0, 0
	var classes []string
	for li := range c.Logs {
		alone, err := runHistFor(c, li)
		if err != nil {
			return false, classes, err
		}
		a, b := inter[li], alone[li]
		if len(a.verdicts) != len(b.verdicts) {
			return false, classes, fmt.Errorf("harness: step count differs for log %d", li)
		}
		acc := 0
		for k := range a.verdicts {
			if a.verdicts[k] != b.verdicts[k] {
				return false, classes, fmt.Errorf("log %d, its request #%d: verdict %q when interleaved with other logs, %q when run alone", li, k, a.verdicts[k], b.verdicts[k])
			}
			if !bytes.Equal(a.outs[k], b.outs[k]) {
				return false, classes, fmt.Errorf("log %d, its request #%d: returned bytes differ between interleaved and isolated run", li, k)
			}
			if a.verdicts[k] == vlib.VAccepted {
				acc++
			} else {
				refusals++
			}
		}
		if !bytes.Equal(a.final, b.final) {
			return false, classes, fmt.Errorf("log %d: final checkpoint differs between interleaved and isolated run:\n%q\n%q", li, a.final, b.final)
		}
		if acc >= 2 {
			busy++
		}
		classes = append(classes, fmt.Sprintf("log-with-%d-accepts", min(acc, 5)))
	}
	return busy >= 2 && refusals >= 1, classes, nil
}

func TestC12Iso(t *testing.T) {
	st := vlib.StatsFor("C12", "iso", ruleC12)
	rapid.Check(t, func(rt *rapid.T) {
		c := vlib.GenHist(rt, profC12)
		// every op picks its log uniformly: the interleaving is part of the draw
		for i := range c.Ops {
			if c.Ops[i].Log >= 0 {
				c.Ops[i].Log = vlib.Uniform(rt, len(c.Logs), "oplog")
			}
		}
		nt, classes, err := runC12(c)
		st.Record(c.Hash(), nt, classes, sampleOf(c))
		if err != nil {
			vlib.SaveFailure("C12", "iso", c, err)
			rt.Fatalf("C12 violated: %v", err)
		}
	})
}

// ---------------------------------------------------------------------------------
// C16 — the read API serves exactly the stored state

const ruleC16 = "generated histories over 2-4 logs, both storages; after every request: GET of every known ID, unknown hex IDs and odd IDs through the registered mux handlers and through the bundled client over an in-memory transport, and the log list; on the SQL store the log list and one held checkpoint are read once more per step with a driver-level storage error under the read (prepare / query / first or second row fetch): a 200 must still be the truth and a held log is never reported as not found; at the end 8 readers issue 320 GETs for different IDs concurrently; non-trivial = a GET issued after >=1 growth on that log or after a refused first submission; distinct by case hash"

var profC16 = vlib.Profile{
	Prop: "C16", MinLogs: 2, MaxLogs: 4, MinOps: 3, MaxOps: 20,
	Storages: []string{"mem", "sql"}, MaxJump: 200, OtherLogPct: 50, Decorate: 25, SharedKeys: true, NonCanonPct: 5, MaxJunkSigs: 90, ECDSAPct: 20,
	Weights: map[string]int{"grow": 40, "refresh": 10, "fork": 8, "wrongold": 6, "badproof": 10, "garbage": 6, "wrongkey": 8, "wrongorigin": 4, "unknownlog": 3, "smaller": 3, "decorated": 8, "zero": 6},
}

// ctxBody is a response body that dies with its request's context (net/http: "the
// context controls the entire lifetime of a request and its response: obtaining a
// connection, sending the request, and reading the response headers and body").
type ctxBody struct {
	ctx context.Context
	rc  io.ReadCloser
}

func (b ctxBody) Read(p []byte) (int, error) {
	if err := b.ctx.Err(); err != nil {
		return 0, err
	}
	return b.rc.Read(p)
}

func (b ctxBody) Close() error { return b.rc.Close() }

type rtFunc func(*http.Request) (*http.Response, error)

func (f rtFunc) RoundTrip(r *http.Request) (*http.Response, error) { return f(r) }

var oddIDs = []string{"_", ".", "~", "%20", "%C3%A9", "a%20b", "", "-", "0", "logs", "checkpoint", strings.Repeat("a", 5000), "ABCDEF", "deadbeef", "a_b", "a.b", "a+b", "a,b", "a%2Fb"}
var pathIDs = []string{"..", "a/b", "../logs", "a/../b", "//", "a//b", "./x"}

func runC16(c *vlib.HistCase) (bool, []string, error) {
	e := vlib.NewEnv(c)
	newTarget := e.NewPlainTarget
	if c.Storage == "sql" {
		// through the wrapped driver (no fault armed while the history runs), so that the
		// reads can be repeated with a storage error injected under them
		newTarget = e.NewFaultTarget
	}
	t, closer, err := newTarget()
	if err != nil {
		return false, nil, fmt.Errorf("harness: %v", err)
	}
	defer closer()
	r := mux.NewRouter()
	ihttp.NewServer(t.W).RegisterHandlers(r)
	serve := func(method, path string) (int, []byte, http.Header) {
		req := httptest.NewRequest(method, "http://witness.test"+path, nil)
		rec := httptest.NewRecorder()
		r.ServeHTTP(rec, req)
		return rec.Code, rec.Body.Bytes(), rec.Header()
	}
	base, _ := url.Parse("http://witness.test/")
	cl := wit_http.NewWitness(base, &http.Client{Transport: rtFunc(func(req *http.Request) (*http.Response, error) {
		if err := req.Context().Err(); err != nil {
			return nil, err
		}
		rec := httptest.NewRecorder()
		r.ServeHTTP(rec, req)
		resp := rec.Result()
		// like a real transport: the request's context governs the body as well - once it
		// is cancelled, reading the body fails
		resp.Body = ctxBody{ctx: req.Context(), rc: resp.Body}
		return resp, nil
	})})
	ctx := context.Background()

	acceptedLogs := map[string]bool{}
	lastAccepted := map[string][]byte{} // the truth: what the last accepted update returned
	grown := map[string]bool{}
	refusedFirst := map[string]bool{}
	nontrivial := false
	var classes []string
	type kept struct {
		got, snap []byte
		id        string
	}
	var retained []kept
	faultRound := 0

	check := func(st *vlib.Step) error {
		if st != nil {
			if st.Verdict == vlib.VAccepted {
				if st.PreHeld.Present {
					grown[st.Req.LogID] = true
				}
				acceptedLogs[st.Req.LogID] = true
				lastAccepted[st.Req.LogID] = st.Out
			} else if st.Req.LogIdx >= 0 && !st.PreHeld.Present {
				refusedFirst[st.Req.LogID] = true
			}
		}
		ids := append(append([]string{}, e.LogIDs...), vlib.UnknownLogID, strings.Repeat("ab", 32))
		for _, id := range ids {
			want, held := lastAccepted[id]
			var werr error
			if !held {
				werr = errors.New("nothing accepted yet")
			}
			code, body, _ := serve("GET", fmt.Sprintf(api.HTTPGetCheckpoint, id))
			cb, cerr := cl.GetLatestCheckpoint(ctx, id)
			if cerr == nil {
				retained = append(retained, kept{got: cb, snap: append([]byte{}, cb...), id: id})
				if len(retained) > 60 {
					retained = retained[len(retained)-60:]
				}
			}
			if werr == nil {
				if grown[id] || refusedFirst[id] {
					nontrivial = true
				}
				classes = append(classes, "get:held")
				if code != 200 || !bytes.Equal(body, want) {
					return fmt.Errorf("GET checkpoint of %s: status %d, body %q; witness holds %q", id[:8], code, body, want)
				}
				if cerr != nil || !bytes.Equal(cb, want) {
					return fmt.Errorf("client.GetLatestCheckpoint(%s) = %q, %v; witness holds %q", id[:8], cb, cerr, want)
				}
			} else {
				if refusedFirst[id] {
					nontrivial = true
				}
				classes = append(classes, "get:none")
				if code != 404 {
					return fmt.Errorf("GET checkpoint of %s while the witness holds none: status %d body %q, want 404", id[:8], code, body)
				}
				if !errors.Is(cerr, os.ErrNotExist) {
					return fmt.Errorf("client.GetLatestCheckpoint(%s) while the witness holds none = %q, %v; want os.ErrNotExist", id[:8], cb, cerr)
				}
			}
		}
		// what the client handed out earlier belongs to the caller: it must not change under
		// later calls (feeders keep the witness's checkpoint while they fetch proofs)
		for _, k := range retained {
			if !bytes.Equal(k.got, k.snap) {
				return fmt.Errorf("bytes returned earlier by client.GetLatestCheckpoint(%s) changed after later client calls: were %q, are now %q", k.id[:8], k.snap, k.got)
			}
		}
		// log list
		code, body, _ := serve("GET", api.HTTPGetLogs)
		if code != 200 {
			return fmt.Errorf("GET logs: status %d", code)
		}
		var list []string
		if err := json.Unmarshal(body, &list); err != nil {
			return fmt.Errorf("GET logs: body %q does not decode: %v", body, err)
		}
		sort.Strings(list)
		var want []string
		for id := range acceptedLogs {
			want = append(want, id)
		}
		sort.Strings(want)
		if strings.Join(list, ",") != strings.Join(want, ",") {
			return fmt.Errorf("log list is %v, want exactly the logs with an accepted update %v", list, want)
		}
		if t.DB == nil {
			return nil
		}
		// The same reads with a storage error under them (SQL store, driver level: the
		// statement cannot be prepared, the query fails, fetching a row fails). Whatever is
		// answered with 200 is still the truth - a list that is exactly the accepted logs,
		// the exact stored bytes - and a log that has a checkpoint is never reported as
		// having none (404 / os.ErrNotExist is what makes a feeder start from size 0); an
		// error status is fine. Afterwards the store answers again (the reads above run
		// once more on the next step).
		faultRound++
		points := []string{vlib.DPrepare, vlib.DQuery, vlib.DRowsNext, vlib.DRowsNext}
		pt := points[faultRound%len(points)]
		nth := 0
		if faultRound%len(points) == 3 {
			nth = 1 // the second row of the list
		}
		armed := func(f func()) bool {
			vlib.Drv.Arm([]vlib.FaultSpec{{Point: pt, Nth: nth}})
			f()
			fired, _ := vlib.Drv.Disarm()
			return len(fired) > 0
		}
		var fcode int
		var fbody []byte
		if armed(func() { fcode, fbody, _ = serve("GET", api.HTTPGetLogs) }) {
			classes = append(classes, "faulty-read:logs:"+pt)
			if fcode == 200 {
				var flist []string
				if err := json.Unmarshal(fbody, &flist); err != nil {
					return fmt.Errorf("GET logs with a storage error (%s #%d) under it: 200 with a body that does not decode: %q", pt, nth, fbody)
				}
				sort.Strings(flist)
				if strings.Join(flist, ",") != strings.Join(want, ",") {
					return fmt.Errorf("GET logs with a storage error (%s #%d) under it answers 200 with the list %v; the logs with an accepted update are %v (an error status would have been fine, a wrong list is not)", pt, nth, flist, want)
				}
			}
		}
		for _, id := range e.LogIDs {
			wantCp, held := lastAccepted[id]
			if !held {
				continue
			}
			var cb []byte
			var cerr error
			if !armed(func() {
				fcode, fbody, _ = serve("GET", fmt.Sprintf(api.HTTPGetCheckpoint, id))
			}) {
				continue
			}
			classes = append(classes, "faulty-read:checkpoint:"+pt)
			if fcode == 404 || (fcode == 200 && !bytes.Equal(fbody, wantCp)) {
				return fmt.Errorf("GET checkpoint of %s with a storage error (%s #%d) under it: status %d body %q; the witness holds %q (an error status would have been fine; 'not found' or other bytes are not)", id[:8], pt, nth, fcode, fbody, wantCp)
			}
			if armed(func() { cb, cerr = cl.GetLatestCheckpoint(ctx, id) }) {
				if errors.Is(cerr, os.ErrNotExist) || (cerr == nil && !bytes.Equal(cb, wantCp)) {
					return fmt.Errorf("client.GetLatestCheckpoint(%s) with a storage error (%s #%d) under the server = %q, %v; the witness holds %q", id[:8], pt, nth, cb, cerr, wantCp)
				}
			}
			break // one log per step keeps the cost flat
		}
		return nil
	}
	oddCheck := func() error {
		// other spellings of stored IDs are other IDs: never another log's (or this log's) checkpoint
		var variants []string
		for _, id := range e.LogIDs {
			up := strings.ToUpper(id)
			mixed := []byte(id)
			for i := range mixed {
				if i%2 == 0 && mixed[i] >= 'a' && mixed[i] <= 'f' {
					mixed[i] -= 32
				}
			}
			variants = append(variants, up, string(mixed), id[:len(id)-1], id+"0", id[1:], "0"+id, "0x"+id, id+"-", strings.Replace(id, id[:2], id[:2]+"-", 1))
		}
		for _, id := range variants {
			if _, stored := lastAccepted[id]; stored {
				continue
			}
			known := false
			for _, k := range e.LogIDs {
				if k == id {
					known = true
				}
			}
			if known {
				continue
			}
			code, body, _ := serve("GET", "/witness/v0/logs/"+id+"/checkpoint")
			classes = append(classes, "get:variant")
			if code == 200 {
				return fmt.Errorf("GET checkpoint for %.70q (a different spelling of a stored ID, i.e. an unknown ID): status 200 body %q, want 404", id, body)
			}
			if cb, cerr := cl.GetLatestCheckpoint(ctx, id); cerr == nil {
				return fmt.Errorf("client.GetLatestCheckpoint(%.70q) (a different spelling of a stored ID) returned %d bytes, want os.ErrNotExist", id, len(cb))
			}
		}
		for _, id := range oddIDs {
			code, body, _ := serve("GET", "/witness/v0/logs/"+id+"/checkpoint")
			classes = append(classes, "get:odd")
			if code == 200 {
				return fmt.Errorf("GET checkpoint for odd ID %.40q: status 200 body %q, want not found", id, body)
			}
			if code != 404 && code != 301 && code != 400 && code != 405 {
				return fmt.Errorf("GET checkpoint for odd ID %.40q: status %d", id, code)
			}
		}
		for _, id := range pathIDs {
			code, body, hdr := serve("GET", "/witness/v0/logs/"+id+"/checkpoint")
			classes = append(classes, "get:pathlike")
			if code == 301 || code == 308 {
				// mux cleans the path; the redirect target names at most one ID
				_ = hdr
				continue
			}
			if code == 200 {
				// weaker sound statement: it must be the checkpoint of a single stored ID
				found := false
				for _, lid := range e.LogIDs {
					if b, err := t.W.GetCheckpoint(lid); err == nil && bytes.Equal(b, body) && strings.Contains(id, lid) {
						found = true
					}
				}
				if !found {
					return fmt.Errorf("GET checkpoint for path-like ID %q returned 200 with %q", id, body)
				}
			}
		}
		return nil
	}
	if err := check(nil); err != nil {
		return false, classes, fmt.Errorf("before any request: %w", err)
	}
	_, err = e.Exec(t, vlib.RunOpts{NoSnapshots: true, AfterStep: func(_ *vlib.Env, _ vlib.Target, st *vlib.Step) error { return check(st) }})
	if err != nil {
		return nontrivial, classes, err
	}
	if err := oddCheck(); err != nil {
		return nontrivial, classes, err
	}
	// the same reads issued concurrently for different IDs (the state is quiescent, so
	// every answer is known): a reader must never be handed another ID's answer
	ids := append(append([]string{}, e.LogIDs...), vlib.UnknownLogID, strings.Repeat("ab", 32))
	var wg sync.WaitGroup
	errs := make(chan error, 16)
	for g := 0; g < 8; g++ {
		wg.Add(1)
		go func(g int) {
			defer wg.Done()
			for k := 0; k < 40; k++ {
				id := ids[(g+k*(g%3+1))%len(ids)]
				want, held := lastAccepted[id]
				code, body, _ := serve("GET", fmt.Sprintf(api.HTTPGetCheckpoint, id))
				if held && (code != 200 || !bytes.Equal(body, want)) {
					errs <- fmt.Errorf("concurrent GETs for different IDs: GET checkpoint of %s: status %d, body %q; witness holds %q", id[:8], code, body, want)
					return
				}
				if !held && code != 404 {
					errs <- fmt.Errorf("concurrent GETs for different IDs: GET checkpoint of %s while the witness holds none: status %d body %q, want 404", id[:8], code, body)
					return
				}
			}
		}(g)
	}
	wg.Wait()
	classes = append(classes, "get:concurrent")
	select {
	case err := <-errs:
		return true, classes, err
	default:
	}
	return nontrivial, classes, nil
}

func TestC16(t *testing.T) {
	st := vlib.StatsFor("C16", "hist", ruleC16)
	rapid.Check(t, func(rt *rapid.T) {
		c := vlib.GenHist(rt, profC16)
		nt, classes, err := runC16(c)
		st.Record(c.Hash(), nt, classes, sampleOf(c))
		if err != nil {
			vlib.SaveFailure("C16", "hist", c, err)
			rt.Fatalf("C16 violated: %v", err)
		}
	})
}

var _ = io.EOF

func init() {
	replayers["C08/hist"] = histReplayer(func(c *vlib.HistCase) error {
		_, _, err := runC08(c, vlib.StatsFor("C08", "hist", ruleC08))
		return err
	})
	replayers["C08/pairs"] = replayers["C08/hist"]
	replayers["C08/big"] = replayers["C08/hist"]
	replayers["C12/iso"] = histReplayer(func(c *vlib.HistCase) error { _, _, err := runC12(c); return err })
	replayers["C16/hist"] = histReplayer(func(c *vlib.HistCase) error { _, _, err := runC16(c); return err })
}
