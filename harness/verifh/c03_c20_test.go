//go:build verif

package verifh

import (
	"encoding/json"
	"bytes"
	"fmt"
	"sort"
	"strings"
	"testing"

	"github.com/transparency-dev/witness/internal/verifh/vlib"
	"pgregory.net/rapid"
)

// ---------------------------------------------------------------------------------
// C03 — a refused update changes nothing and releases no cosignature

const ruleC03 = "generated histories over 2-3 logs with every refusal class incl. injected storage failures; non-trivial = history with >=1 refusal issued while some log holds a checkpoint; distinct by case hash"

var profC03 = vlib.Profile{
	Prop: "C03", MinLogs: 2, MaxLogs: 3, MinOps: 4, MaxOps: 30,
	Storages: []string{"mem", "sql"}, MaxJump: 512, OtherLogPct: 35, Decorate: 10, SharedKeys: true, FaultPct: 16, MixOldPct: 8, DrvFaults: true, CancelPct: 25, DeadCtxPct: 6,
	Weights: map[string]int{"grow": 22, "refresh": 6, "fork": 12, "wrongold": 10, "badproof": 12, "replay": 4, "garbage": 6, "unkroot": 3, "oddroot": 1, "wrongkey": 6, "wrongorigin": 4, "unknownlog": 4, "smaller": 5, "decorated": 3, "zero": 2, "mismatch": 6},
}

func checkRefusalsInert(e *vlib.Env, steps []*vlib.Step) (bool, []string, error) {
	nontrivial := false
	var classes []string
	for _, st := range steps {
		if st.Verdict == vlib.VAccepted || st.Verdict == "planted" {
			continue
		}
		cls := "refused:" + st.Verdict + "/" + e.Case.Storage
		if len(st.Fired) > 0 && st.Verdict == vlib.VOther {
			cls = "refused:storage-fault:" + strings.Split(st.Fired[0], "#")[0] + "/" + e.Case.Storage
		}
		if st.Verdict == vlib.VOther && len(st.Fired) == 0 {
			cls = "refused:other(" + errClass(st.Err) + ")/" + e.Case.Storage
		}
		classes = append(classes, cls)
		if len(st.Pre.Cps) > 0 {
			nontrivial = true
		}
		if !st.Pre.Equal(st.Post) {
			return nontrivial, classes, fmt.Errorf("step %d (%s): update refused (%s: %v) but visible state changed: logs %v -> %v, differing checkpoints: %s",
				st.Index, st.Op.Note, st.Verdict, st.Err, st.Pre.Logs, st.Post.Logs, diffCps(st.Pre, st.Post))
		}
		if st.Out != nil && !bytes.Equal(st.Out, st.Pre.Cps[st.Req.LogID]) {
			// what is it, then? in particular: a cosignature over the refused text?
			detail := "bytes that are not the stored checkpoint"
			if text, sigs, ok := vlib.SplitNote(st.Out); ok {
				for _, wk := range e.WKeys {
					for _, sg := range sigs {
						if wk.Kind == vlib.WKCosig {
							if _, ok := wk.K.VerifyCosig(text, sg); ok {
								detail = "a VALID WITNESS COSIGNATURE over text " + fmt.Sprintf("%q", text)
							}
						} else if wk.K.VerifyPlain(text, sg) {
							detail = "a VALID WITNESS SIGNATURE over text " + fmt.Sprintf("%q", text)
						}
					}
				}
			}
			return nontrivial, classes, fmt.Errorf("step %d (%s): refusal (%s) returned %s", st.Index, st.Op.Note, st.Verdict, detail)
		}
	}
	return nontrivial, classes, nil
}

func errClass(err error) string {
	if err == nil {
		return "nil"
	}
	s := err.Error()
	if i := strings.IndexAny(s, ":("); i > 0 {
		s = s[:i]
	}
	if len(s) > 40 {
		s = s[:40]
	}
	return s
}

func diffCps(a, b vlib.Snapshot) string {
	var out []string
	keys := map[string]bool{}
	for k := range a.Cps {
		keys[k] = true
	}
	for k := range b.Cps {
		keys[k] = true
	}
	for k := range keys {
		if !bytes.Equal(a.Cps[k], b.Cps[k]) {
			out = append(out, k[:8])
		}
	}
	sort.Strings(out)
	return strings.Join(out, ",")
}

func runC03(c *vlib.HistCase) (bool, []string, error) {
	e := vlib.NewEnv(c)
	t, closer, err := e.NewFaultTarget() // interface-level and (on SQL) driver-level faults, context cancellation
	if err != nil {
		return false, nil, fmt.Errorf("harness: %v", err)
	}
	defer closer()
	steps, err := e.Exec(t, vlib.RunOpts{})
	if err != nil {
		return false, nil, err
	}
	return checkRefusalsInert(e, steps)
}

func TestC03(t *testing.T) {
	st := vlib.StatsFor("C03", "hist", ruleC03)
	rapid.Check(t, func(rt *rapid.T) {
		c := vlib.GenHist(rt, profC03)
		nt, classes, err := runC03(c)
		st.Record(c.Hash(), nt, classes, sampleOf(c))
		if err != nil {
			vlib.SaveFailure("C03", "hist", c, err)
			rt.Fatalf("C03 violated: %v", err)
		}
	})
}

// ---------------------------------------------------------------------------------
// C20 — counters

const ruleC20 = "generated mixed-verdict histories over 2-3 logs (8% of the requests arrive with a context that has already been cancelled or has expired - still update requests); per request the delta of every witness_update_* counter/label is compared with the observed verdict; non-trivial = history with >=1 root-mismatch or invalid-proof refusal and >=1 accept; distinct by case hash"

var profC20 = vlib.Profile{
	Prop: "C20", MinLogs: 2, MaxLogs: 3, MinOps: 4, MaxOps: 30,
	Storages: []string{"mem", "sql"}, MaxJump: 512, OtherLogPct: 35, Decorate: 5, SharedKeys: true, FaultPct: 10, MixOldPct: 8, DeadCtxPct: 8,
	Weights: map[string]int{"grow": 25, "refresh": 8, "fork": 16, "wrongold": 8, "badproof": 14, "replay": 3, "garbage": 4, "unkroot": 3, "wrongkey": 4, "wrongorigin": 3, "unknownlog": 4, "smaller": 4, "decorated": 2, "zero": 3, "mismatch": 8},
}

const (
	cAttempt = "witness_update_request"
	cSuccess = "witness_update_success"
	cInvalid = "witness_update_invalid_consistency"
	cIncons  = "witness_update_inconsistent_checkpoints"
)

func runC20(c *vlib.HistCase) (bool, []string, error) {
	e := vlib.NewEnv(c)
	t, closer, err := e.NewInstrumentedWitness()
	if err != nil {
		return false, nil, fmt.Errorf("harness: %v", err)
	}
	defer closer()
	var classes []string
	sawAlarm, sawAccept := false, false
	before := vlib.Metrics.Snapshot("witness_update")
	promBefore, err := vlib.PromSnapshot("witness_update")
	if err != nil {
		return false, nil, fmt.Errorf("harness: prometheus gather: %v", err)
	}
	_, err = e.Exec(t, vlib.RunOpts{NoSnapshots: true, AfterStep: func(e *vlib.Env, _ vlib.Target, st *vlib.Step) error {
		after := vlib.Metrics.Snapshot("witness_update")
		d := vlib.Diff(before, after)
		before = after
		promAfter, perr := vlib.PromSnapshot("witness_update")
		if perr != nil {
			return fmt.Errorf("prometheus gather fails: %v", perr)
		}
		pd := vlib.Diff(promBefore, promAfter)
		promBefore = promAfter
		want := map[string]int{}
		id := st.Req.LogID
		if st.Req.LogIdx >= 0 {
			want[cAttempt+"{"+id+"}"] = 1
		}
		switch st.Verdict {
		case vlib.VAccepted:
			want[cSuccess+"{"+id+"}"] = 1
			sawAccept = true
		case vlib.VBadProof:
			want[cInvalid+"{"+id+"}"] = 1
			sawAlarm = true
		case vlib.VMismatch:
			want[cIncons+"{"+id+"}"] = 1
			sawAlarm = true
		}
		if st.Verdict == vlib.VOther {
			classes = append(classes, "verdict:other("+errClass(st.Err)+")")
		} else {
			classes = append(classes, "verdict:"+st.Verdict)
		}
		if fmt.Sprint(sortedMap(d)) != fmt.Sprint(sortedMap(want)) {
			return fmt.Errorf("verdict %q (err=%v) for log %s moved counters %v, want %v", st.Verdict, st.Err, id[:8], sortedMap(d), sortedMap(want))
		}
		// The same through the repository's Prometheus binding, i.e. what is scraped.
		if fmt.Sprint(sortedMap(pd)) != fmt.Sprint(sortedMap(want)) {
			return fmt.Errorf("verdict %q (err=%v) for log %s moved the Prometheus counters (monitoring/prometheus, prefix %q) %v, want %v", st.Verdict, st.Err, id[:8], vlib.PromPrefix, sortedMap(pd), sortedMap(want))
		}
		return nil
	}})
	for _, op := range c.Ops {
		if op.DeadCtx != "" {
			classes = append(classes, "request-with-ended-context:"+op.DeadCtx)
		}
	}
	return sawAlarm && sawAccept, classes, err
}

func sortedMap(m map[string]int) []string {
	var out []string
	for k, v := range m {
		// shorten ids for readability
		out = append(out, fmt.Sprintf("%s=%+d", k, v))
	}
	sort.Strings(out)
	return out
}

func TestC20(t *testing.T) {
	st := vlib.StatsFor("C20", "hist", ruleC20)
	rapid.Check(t, func(rt *rapid.T) {
		c := vlib.GenHist(rt, profC20)
		nt, classes, err := runC20(c)
		st.Record(c.Hash(), nt, classes, sampleOf(c))
		if err != nil {
			vlib.SaveFailure("C20", "hist", c, err)
			rt.Fatalf("C20 violated: %v", err)
		}
	})
}

// TestC20Race: the counters under overlapping requests. Every interleaving (storage-call
// granularity, the C05 scheduler) of every two-request scenario on both stores: during the
// concurrent phase each update request that named a known log moves the attempt counter
// once, each accepted one the success counter once, each bad-proof / root-mismatch refusal
// its counter once, and nothing else moves.
func TestC20Race(t *testing.T) {
	st := vlib.StatsFor("C20", "race", "exhaustive: ALL interleavings (harness-owned scheduler at storage-call granularity) of every 2-request scenario of C05 on both stores; the movement of the witness_update_* counters during the concurrent phase must equal what the requests' outcomes say (attempt once per update request, success once per accepted one, invalid-consistency / inconsistent once per such refusal, nothing else); non-trivial = a schedule in which a request lost a race (storage error) or two requests overlapped")
	for _, base := range scenarios(2) {
		for _, storage := range []string{"mem", "sql"} {
			c := *base
			c.Storage = storage
			cache := &refCache{m: map[string][]outcome{}}
			var choices []int
			for {
				res, steps, err := runSchedule(&c, choices, cache)
				lo := lastSchedule
				if err == nil && lo != nil {
					want := map[string]int{}
					lost := false
					for i, r := range lo.reqs {
						if r.Kind != "update" {
							continue
						}
						id := lo.ids[r.Log]
						want[cAttempt+"{"+id+"}"]++
						switch lo.obs[i].Kind {
						case "accepted":
							want[cSuccess+"{"+id+"}"]++
						case "refused:" + vlib.VBadProof:
							want[cInvalid+"{"+id+"}"]++
						case "refused:" + vlib.VMismatch:
							want[cIncons+"{"+id+"}"]++
						case "storage-error":
							lost = true
						}
					}
					st.Record(schedKey(&c, steps), lost || res.Window || res.Waited, []string{c.Name + "/" + storage}, schedSample(&c, steps))
					if fmt.Sprint(sortedMap(lo.counters)) != fmt.Sprint(sortedMap(want)) {
						cc := c
						for _, s := range steps {
							cc.Choices = append(cc.Choices, s.Chosen)
						}
						err := fmt.Errorf("scenario %s on %s, schedule %v: outcomes %v moved the counters by %v, want %v", c.Name, storage, cc.Choices, lo.obs, sortedMap(lo.counters), sortedMap(want))
						vlib.SaveFailure("C20", "race", &cc, err)
						t.Fatalf("C20 violated: %v", err)
					}
				}
				// a linearizability violation is C05's business; here only the counters are judged
				choices = vlib.NextChoices(steps)
				if choices == nil {
					break
				}
			}
		}
	}
	st.SetExhaustive(true)
}

func init() {
	replayers["C20/race"] = func(raw json.RawMessage) error {
		var c ConcCase
		if err := json.Unmarshal(raw, &c); err != nil {
			return err
		}
		_, steps, _ := runSchedule(&c, c.Choices, &refCache{m: map[string][]outcome{}})
		lo := lastSchedule
		if lo == nil {
			return fmt.Errorf("harness: no schedule observed")
		}
		want := map[string]int{}
		for i, r := range lo.reqs {
			if r.Kind != "update" {
				continue
			}
			id := lo.ids[r.Log]
			want[cAttempt+"{"+id+"}"]++
			switch lo.obs[i].Kind {
			case "accepted":
				want[cSuccess+"{"+id+"}"]++
			case "refused:" + vlib.VBadProof:
				want[cInvalid+"{"+id+"}"]++
			case "refused:" + vlib.VMismatch:
				want[cIncons+"{"+id+"}"]++
			}
		}
		_ = steps
		if fmt.Sprint(sortedMap(lo.counters)) != fmt.Sprint(sortedMap(want)) {
			return fmt.Errorf("outcomes %v moved the counters by %v, want %v", lo.obs, sortedMap(lo.counters), sortedMap(want))
		}
		return nil
	}
	replayers["C03/hist"] = histReplayer(func(c *vlib.HistCase) error { _, _, err := runC03(c); return err })
	replayers["C20/hist"] = histReplayer(func(c *vlib.HistCase) error { _, _, err := runC20(c); return err })
}
