//go:build verif

package verifh

import (
	"encoding/json"
	"os"

	"github.com/transparency-dev/witness/internal/verifh/vlib"
)

func osGetenv(k string) string { return os.Getenv(k) }

// histReplayer adapts a func(*HistCase) to the replay registry.
func histReplayer(run func(c *vlib.HistCase) error) func(json.RawMessage) error {
	return func(raw json.RawMessage) error {
		var c vlib.HistCase
		if err := json.Unmarshal(raw, &c); err != nil {
			return err
		}
		return run(&c)
	}
}

// sampleOf trims a case for the evidence file.
func sampleOf(c *vlib.HistCase) any {
	b, _ := json.Marshal(c)
	var v any
	_ = json.Unmarshal(b, &v)
	return v
}
