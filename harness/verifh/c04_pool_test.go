//go:build verif

package verifh

import (
	"bytes"
	"context"
	"database/sql"
	"encoding/json"
	"fmt"
	"os"
	"path/filepath"
	"sync"
	"testing"

	_ "github.com/mattn/go-sqlite3"
	"github.com/transparency-dev/witness/internal/persistence"
	psql "github.com/transparency-dev/witness/internal/persistence/sql"
	"github.com/transparency-dev/witness/internal/verifh/vlib"
	"github.com/transparency-dev/witness/internal/witness"
)

// PoolCase: an accepted update on a file-backed SQLite store whose pool has several
// connections (the shipped binary uses one; the persistence takes any *sql.DB), with one read
// of the same log slipped in at a chosen point of the update's storage calls.
type PoolCase struct {
	From  uint64 `json:"from"`
	To    uint64 `json:"to"`
	Point string `json:"point"` // after-writeops | after-getlatest | before-set
	Conns int    `json:"conns"`
}

type probePersist struct {
	persistence.LogStatePersistence
	mu    sync.Mutex
	point string
	probe func()
}

func (p *probePersist) fire(at string) {
	p.mu.Lock()
	f := p.probe
	hit := f != nil && at == p.point
	if hit {
		p.probe = nil
	}
	p.mu.Unlock()
	if hit {
		f()
	}
}

type probeWriter struct {
	persistence.LogStateWriteOps
	p *probePersist
}

func (p *probePersist) WriteOps(id string) (persistence.LogStateWriteOps, error) {
	w, err := p.LogStatePersistence.WriteOps(id)
	if err != nil {
		return nil, err
	}
	p.fire("after-writeops")
	return &probeWriter{LogStateWriteOps: w, p: p}, nil
}

func (w *probeWriter) GetLatest() ([]byte, error) {
	b, err := w.LogStateWriteOps.GetLatest()
	w.p.fire("after-getlatest")
	return b, err
}

func (w *probeWriter) Set(b []byte) error {
	w.p.fire("before-set")
	return w.LogStateWriteOps.Set(b)
}

func runPoolCase(c *PoolCase) error {
	dir, err := os.MkdirTemp(os.Getenv("VERIF_SCRATCH"), "c04pool")
	if err != nil {
		return fmt.Errorf("harness: %v", err)
	}
	defer os.RemoveAll(dir)
	db, err := sql.Open("sqlite3", filepath.Join(dir, "w.db"))
	if err != nil {
		return fmt.Errorf("harness: %v", err)
	}
	defer db.Close()
	db.SetMaxOpenConns(c.Conns)
	hc := &vlib.HistCase{Prop: "C04", Storage: "sql", Seed: "A",
		Logs: []vlib.LogSpec{{Origin: "example.com/pool", KeyLabel: "log0", KeyName: "logkey"}}, WKeys: vlib.ProdWKeys}
	e := vlib.NewEnv(hc)
	pp := &probePersist{LogStatePersistence: psql.NewPersistence(db)}
	w, err := witness.New(witness.Opts{Persistence: pp, Signers: e.Signers(), KnownLogs: e.KnownLogs()})
	if err != nil {
		return fmt.Errorf("harness: %v", err)
	}
	id, key, br := e.LogIDs[0], e.LogKeys[0], e.Branches[0]
	cp := func(n uint64, ext []string) []byte {
		root := br.Root(n)
		text := vlib.CheckpointText("example.com/pool", n, root[:], ext)
		return vlib.Note(text, key.SigLine(text))
	}
	first, err := w.Update(context.Background(), id, 0, cp(c.From, nil), nil)
	if err != nil {
		return fmt.Errorf("harness: first update: %v", err)
	}
	// a first read, so that whatever the store keeps for readers is warm
	if b, err := w.GetCheckpoint(id); err != nil || !bytes.Equal(b, first) {
		return fmt.Errorf("read after the first accepted update returns %q, %v; the update returned %q", b, err, first)
	}
	var during []byte
	var duringErr error
	pp.mu.Lock()
	pp.point = c.Point
	pp.probe = func() { during, duringErr = w.GetCheckpoint(id) }
	pp.mu.Unlock()
	var proof [][]byte
	var ext []string
	if c.To > c.From {
		proof = br.Consistency(c.From, c.To)
	} else {
		ext = []string{"refreshed"}
	}
	second, err := w.Update(context.Background(), id, c.From, cp(c.To, ext), proof)
	if err != nil {
		// an update overlapped by a read may fail with a storage error and no effect
		if b, rerr := w.GetCheckpoint(id); rerr != nil || !bytes.Equal(b, first) {
			return fmt.Errorf("the update %d -> %d failed (%v) but a read now returns %q, %v instead of the previous checkpoint", c.From, c.To, err, b, rerr)
		}
		return nil
	}
	if duringErr == nil && !bytes.Equal(during, first) && !bytes.Equal(during, second) {
		return fmt.Errorf("a read during the update %d -> %d (%s) returned %q: neither the checkpoint before nor after", c.From, c.To, c.Point, during)
	}
	for i := 0; i < 2; i++ {
		b, err := w.GetCheckpoint(id)
		if err != nil || !bytes.Equal(b, second) {
			return fmt.Errorf("read %d after the accepted update %d -> %d (pool of %d connections, another read of the log at %q) returns %q, %v; the update returned %q", i+1, c.From, c.To, c.Conns, c.Point, b, err, second)
		}
	}
	return nil
}

// TestC04Pool: read-after-write on a SQLite store with a pool of several connections and a
// read slipped into the update's window.
func TestC04Pool(t *testing.T) {
	st := vlib.StatsFor("C04", "pool", "exhaustive over {2, 4} pooled connections x 3 points of an accepted update's storage calls (after WriteOps, after its GetLatest, before Set) x 4 (from, to) pairs incl. a same-size refresh, file-backed SQLite: a read of the same log is slipped in at that point; afterwards reads return exactly the bytes the update returned; non-trivial = any")
	for _, conns := range []int{2, 4} {
		for _, pt := range []string{"after-writeops", "after-getlatest", "before-set"} {
			for _, ft := range [][2]uint64{{1, 2}, {5, 5}, {5, 8}, {255, 257}} {
				c := &PoolCase{From: ft[0], To: ft[1], Point: pt, Conns: conns}
				err := runPoolCase(c)
				b, _ := json.Marshal(c)
				st.Record(string(b), true, []string{"pool:" + pt}, vlib.SampleOf(c))
				if err != nil {
					vlib.SaveFailure("C04", "pool", c, err)
					t.Fatalf("C04 violated: %v", err)
				}
			}
		}
	}
	st.SetExhaustive(true)
}

func init() {
	replayers["C04/pool"] = func(raw json.RawMessage) error {
		var c PoolCase
		if err := json.Unmarshal(raw, &c); err != nil {
			return err
		}
		return runPoolCase(&c)
	}
}
