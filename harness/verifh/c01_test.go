//go:build verif

package verifh

import (
	"bytes"
	"fmt"
	"testing"

	"github.com/transparency-dev/witness/internal/verifh/vlib"
	"pgregory.net/rapid"
)

var profC01 = vlib.Profile{
	Prop: "C01", MinLogs: 1, MaxLogs: 2, MinOps: 4, MaxOps: 40,
	Storages: []string{"mem", "sql"}, Weights: weightsC01, MaxJump: 4096, OtherLogPct: 10, Decorate: 10, NonCanonPct: 5, MixOldPct: 5, ECDSAPct: 15,
}

// weightsC01 = the default adversarial mix plus size-0 states (a log may sign several
// "empty tree" checkpoints) and same-size different-root submissions.
var weightsC01 = func() map[string]int {
	w := map[string]int{}
	for k, v := range vlib.DefaultWeights {
		w[k] = v
	}
	w["zero"] = 3
	w["mismatch"] = 8
	w["tofufork"] = 4
	return w
}()

const ruleC01 = "rapid-generated update histories (forking universe, adversarial op mix) on mem/sql storage; non-trivial = history with >=1 accepted growth from a non-empty state and >=1 later request refused after signature verification; distinct by case hash"

type accepted struct {
	step   int
	size   uint64
	root   []byte
	branch *vlib.Branch
	odd    bool
}

// checkAppendOnly is the C01 oracle over the observations of one log.
func checkAppendOnly(e *vlib.Env, steps []*vlib.Step) (nontrivial bool, classes []string, err error) {
	perLog := map[string][]accepted{}
	grewFromNonEmpty := map[string]bool{}
	for _, st := range steps {
		id := st.Req.LogID
		postRefusal := st.Verdict == vlib.VStale || st.Verdict == vlib.VMismatch || st.Verdict == vlib.VBadProof || st.Verdict == vlib.VOldTooBig
		cls := st.Verdict
		if st.PreHeld.Present {
			cls += "@held"
		} else {
			cls += "@empty"
		}
		classes = append(classes, cls)
		if st.Verdict != vlib.VAccepted {
			if postRefusal && grewFromNonEmpty[id] {
				nontrivial = true
			}
			// (5) a refusal leaves the named log's checkpoint unchanged
			if !bytes.Equal(st.Pre.Cps[id], st.Post.Cps[id]) {
				return nontrivial, classes, fmt.Errorf("step %d: refused (%s) but stored checkpoint of %s changed", st.Index, st.Verdict, id)
			}
			continue
		}
		h := e.ScanCheckpoint(st.Out)
		if !h.ParseOK {
			return nontrivial, classes, fmt.Errorf("step %d: accepted but returned bytes do not scan as a checkpoint: %q", st.Index, st.Out)
		}
		// (6) what was cosigned is what was submitted
		subText, _, ok := vlib.SplitNote(st.Req.Cp)
		if !ok || subText != h.Text {
			return nontrivial, classes, fmt.Errorf("step %d: cosigned text differs from submitted text", st.Index)
		}
		// (5) read-after-accept
		if !bytes.Equal(st.Post.Cps[id], st.Out) {
			return nontrivial, classes, fmt.Errorf("step %d: accepted but GetCheckpoint differs from returned bytes", st.Index)
		}
		cur := accepted{step: st.Index, size: h.Size, root: h.Root, branch: h.Branch, odd: len(h.Root) != 32}
		hist := perLog[id]
		if len(hist) > 0 {
			prev := hist[len(hist)-1]
			if cur.size < prev.size {
				return nontrivial, classes, fmt.Errorf("step %d: cosigned size %d after size %d (step %d)", st.Index, cur.size, prev.size, prev.step)
			}
			if cur.size == prev.size && !bytes.Equal(cur.root, prev.root) {
				return nontrivial, classes, fmt.Errorf("step %d: cosigned two roots for size %d (steps %d and %d)", st.Index, cur.size, prev.step, st.Index)
			}
			if cur.size > prev.size {
				if prev.size > 0 {
					grewFromNonEmpty[id] = true
				}
				switch {
				case prev.odd || cur.odd:
					// commits to no tree; see DESIGN.md C01
				case prev.branch != nil && cur.branch != nil:
					if !vlib.IsPrefix(prev.branch, prev.size, cur.branch, cur.size) {
						return nontrivial, classes, fmt.Errorf("step %d: SPLIT VIEW: cosigned size %d on branch %q after size %d on branch %q, which is not a prefix of it (common prefix %d)",
							st.Index, cur.size, cur.branch.Key, prev.size, prev.branch.Key, vlib.CommonPrefix(prev.branch, cur.branch, prev.size))
					}
				case prev.size == 0:
					// the empty tree is a prefix of everything
				default:
					if !vlib.VerifyConsistencyStrict(prev.size, cur.size, prev.root, cur.root, st.Req.Proof) {
						return nontrivial, classes, fmt.Errorf("step %d: growth %d->%d accepted although the strict RFC 6962 verifier rejects the proof and the roots are not known trees", st.Index, prev.size, cur.size)
					}
				}
			}
		}
		perLog[id] = append(hist, cur)
	}
	return nontrivial, classes, nil
}

func runC01(c *vlib.HistCase) (bool, []string, error) {
	e := vlib.NewEnv(c)
	w, _, closer, err := e.NewWitness()
	if err != nil {
		return false, nil, fmt.Errorf("harness: %v", err)
	}
	defer closer()
	steps, err := e.Exec(vlib.WitnessTarget{W: w}, vlib.RunOpts{})
	if err != nil {
		return false, nil, err
	}
	return checkAppendOnly(e, steps)
}

func init() {
	replayers["C01/hist"] = histReplayer(func(c *vlib.HistCase) error { _, _, err := runC01(c); return err })
}

func TestC01(t *testing.T) {
	st := vlib.StatsFor("C01", "hist", ruleC01)
	rapid.Check(t, func(rt *rapid.T) {
		c := vlib.GenHist(rt, profC01)
		nt, classes, err := runC01(c)
		st.Record(c.Hash(), nt, classes, sampleOf(c))
		if err != nil {
			vlib.SaveFailure("C01", "hist", c, err)
			rt.Fatalf("C01 violated: %v", err)
		}
	})
}
