//go:build verif

package verifh

import (
	"bytes"
	"encoding/json"
	"fmt"
	"strings"
	"testing"
	"time"

	"github.com/transparency-dev/witness/internal/verifh/vlib"
	"pgregory.net/rapid"
)

const ruleC07 = "histories with storage faults injected at the LogStatePersistence interface (WriteOps, GetLatest, Set, Close; plain and gRPC-coded errors) and at SQL-driver calls (begin, prepare, query, exec, stmtclose, commit before taking effect, rollback) followed by fault-free honest probes; non-trivial = a fault actually fired while the named log already held a checkpoint; distinct by case hash"

var profC07 = vlib.Profile{
	Prop: "C07", MinLogs: 1, MaxLogs: 2, MinOps: 2, MaxOps: 16,
	Storages: []string{"sql", "sql", "mem"}, MaxJump: 200, OtherLogPct: 20, Decorate: 5, FaultPct: 45, DrvFaults: true,
	Weights: map[string]int{"grow": 40, "refresh": 12, "tofufork": 16, "fork": 6, "badproof": 8, "wrongold": 6, "wrongkey": 4, "mismatch": 4, "smaller": 2},
}

// isReadFault: the fault hit the read of the previous checkpoint, either at the interface
// (Write.GetLatest) or at a driver call made while that read was being served. A close of
// the read statement is not counted: by then the row has been delivered.
func isReadFault(f string) bool {
	if strings.HasPrefix(f, vlib.PWriteGet+"#") {
		return true
	}
	return strings.HasSuffix(f, "@"+vlib.PWriteGet) && !strings.HasPrefix(f, vlib.DStmtClose)
}

// runC07 executes the case under a watchdog: a leaked transaction on the one-connection
// store blocks the next operation for ever.
func runC07(c *vlib.HistCase, stats *vlib.Stats) (bool, []string, error) {
	type result struct {
		nt      bool
		classes []string
		err     error
	}
	progress := make(chan string, 1024)
	done := make(chan result, 1)
	go func() {
		nt, cl, err := runC07Inner(c, stats, progress)
		done <- result{nt, cl, err}
	}()
	last := "start"
	timer := time.NewTimer(30 * time.Second)
	defer timer.Stop()
	for {
		select {
		case r := <-done:
			return r.nt, r.classes, r.err
		case p := <-progress:
			last = p
			if !timer.Stop() {
				select {
				case <-timer.C:
				default:
				}
			}
			timer.Reset(30 * time.Second)
		case <-timer.C:
			return true, nil, fmt.Errorf("WEDGE: no progress for 30s after %s: the next operation on the one-connection store does not complete", last)
		}
	}
}

func runC07Inner(c *vlib.HistCase, stats *vlib.Stats, progress chan<- string) (bool, []string, error) {
	e := vlib.NewEnv(c)
	t, closer, err := e.NewFaultTarget()
	if err != nil {
		return false, nil, fmt.Errorf("harness: %v", err)
	}
	defer closer()
	nontrivial := false
	var classes []string
	note := func(s string) {
		select {
		case progress <- s:
		default:
		}
	}
	_, err = e.Exec(t, vlib.RunOpts{
		AfterUpdate: func(e *vlib.Env, _ vlib.Target, st *vlib.Step) error {
			note(fmt.Sprintf("update %d returned", st.Index))
			// (3) no write handle / connection left checked out
			if n := t.IP.Open(); n != 0 {
				return fmt.Errorf("update returned (%s, err=%v, faults fired %v) leaving %d storage write handle(s) open", st.Verdict, st.Err, st.Fired, n)
			}
			if t.DB != nil {
				if s := t.DB.Stats(); s.InUse != 0 {
					return fmt.Errorf("update returned (%s, err=%v, faults fired %v) leaving %d database connection(s) checked out of a pool of 1", st.Verdict, st.Err, st.Fired, s.InUse)
				}
			}
			return nil
		},
		AfterStep: func(e *vlib.Env, _ vlib.Target, st *vlib.Step) error {
			note(fmt.Sprintf("step %d complete", st.Index))
			id := st.Req.LogID
			for _, f := range st.Fired {
				classes = append(classes, "fired:"+strings.Split(f, "#")[0]+"/"+c.Storage)
			}
			if len(st.Fired) > 0 && st.PreHeld.Present {
				nontrivial = true
			}
			readFault := false
			for _, f := range st.Fired {
				if isReadFault(f) {
					readFault = true
				}
			}
			if st.Op.Note == "probe" {
				f2 := st.PreHeld.Present && st.PreHeld.ParseOK && st.PreHeld.Size == 0 && st.Req.CpSize > 0
				if f2 && isKnown("F2") {
					stats.Exclude("F2")
					return nil
				}
				if st.PreHeld.Present && st.PreHeld.Branch == nil {
					// the log committed to a root that is no tree the harness knows: no honest continuation exists
					classes = append(classes, "probe:skipped-unknown-tree")
					return nil
				}
				classes = append(classes, "probe:"+st.Verdict)
				if st.Verdict != vlib.VAccepted {
					return fmt.Errorf("after the faults stopped, the honest continuation (size %d -> %d) is refused: %s (%v)", st.PreHeld.Size, st.Req.CpSize, st.Verdict, st.Err)
				}
			}
			if st.Verdict == vlib.VAccepted {
				// (1) accepted => a fault-free read returns exactly what it returned
				if !bytes.Equal(st.Post.Cps[id], st.Out) {
					return fmt.Errorf("update reported as accepted (faults fired %v) but a following fault-free read returns %q, not the %d bytes it returned", st.Fired, st.Post.Cps[id], len(st.Out))
				}
				// (2) never accepted on the strength of a failed read
				if readFault {
					// accepted although the read failed: only legitimate if the implementation
					// obtained the previous checkpoint some other way (e.g. a retry) and the
					// request is one the protocol accepts from the state that was stored
					if ex := vlib.ExpectVerdict(st); !(ex.InClaim && ex.Verdict == vlib.VAccepted) {
						return fmt.Errorf("the read of the previous checkpoint failed (%v) and the update (%s; from the stored state the protocol says %q) was accepted: a read error was treated as 'no previous checkpoint'", st.Fired, st.Op.Note, ex.Verdict+ex.Why)
					}
				}
				return nil
			}
			if !st.Pre.Equal(st.Post) {
				return fmt.Errorf("update refused (%s: %v; faults fired %v) but the stored state changed", st.Verdict, st.Err, st.Fired)
			}
			return nil
		},
	})
	return nontrivial, classes, err
}

func withProbes(c *vlib.HistCase) *vlib.HistCase {
	cc := *c
	cc.Ops = append(append([]vlib.Op{}, c.Ops...), probeOps(c, []int64{0, 3, 0})...)
	return &cc
}

func TestC07Hist(t *testing.T) {
	st := vlib.StatsFor("C07", "hist", ruleC07)
	rapid.Check(t, func(rt *rapid.T) {
		c := withProbes(vlib.GenHist(rt, profC07))
		nt, classes, err := runC07(c, st)
		st.Record(c.Hash(), nt, classes, sampleOf(c))
		if err != nil {
			vlib.SaveFailure("C07", "hist", c, err)
			rt.Fatalf("C07 violated: %v", err)
		}
	})
}

// --- enumeration of all single and double fault masks over small histories ------------

func baseHistories() [][]vlib.Op {
	grow := func(d int64) vlib.Op {
		return vlib.Op{Kind: "update", Note: "grow", Cp: vlib.CpSpec{Branch: -1, Size: vlib.SizeSpec{Rel: "cur", N: d}, MinSize: 1, Origin: -1, Signer: -1}, Old: vlib.SizeSpec{Rel: "cur"}, Proof: vlib.ProofSpec{Kind: "correct"}}
	}
	refresh := grow(0)
	refresh.Note = "refresh"
	// an extension line makes the refreshed text differ from the stored one, so that
	// "reported accepted but not stored" is visible whatever second the clock shows
	refresh.Cp.Ext = []string{"refreshed"}
	bad := grow(4)
	bad.Note, bad.Proof = "badproof", vlib.ProofSpec{Kind: "flip", I: 0, J: 3}
	stale := grow(4)
	stale.Note, stale.Old = "wrongold", vlib.SizeSpec{Rel: "cur", N: -1}
	tofu := vlib.Op{Kind: "update", Note: "tofufork", Cp: vlib.CpSpec{Branch: 1, Size: vlib.SizeSpec{Rel: "cur", N: 2}, MinSize: 1, Origin: -1, Signer: -1}, Old: vlib.SizeSpec{Rel: "abs"}, Proof: vlib.ProofSpec{Kind: "empty"}}
	return [][]vlib.Op{
		{grow(3), grow(4), refresh},
		{grow(3), bad, grow(2)},
		{grow(5), tofu, grow(1)},
		{grow(2), stale, refresh},
		{grow(3), tofu, tofu},
	}
}

type faultSite struct {
	op int
	f  vlib.FaultSpec
}

func allSites(nops int, storage string) []faultSite {
	var out []faultSite
	for op := 0; op < nops; op++ {
		for _, p := range []string{vlib.PWriteOps, vlib.PWriteGet, vlib.PWriteSet, vlib.PWriteClos} {
			for _, code := range []string{"plain", "unavailable"} {
				out = append(out, faultSite{op, vlib.FaultSpec{Point: p, Code: code}})
			}
			if p == vlib.PWriteOps || p == vlib.PWriteGet {
				// failed reads that LOOK like "nothing there": they are failures all the same
				for _, code := range []string{"enoent", "norows", "eof"} {
					out = append(out, faultSite{op, vlib.FaultSpec{Point: p, Code: code}})
				}
			}
		}
		if storage == "sql" {
			for _, p := range []string{vlib.DBegin, vlib.DQuery, vlib.DRowsNext, vlib.DExec, vlib.DCommit, vlib.DRollback} {
				out = append(out, faultSite{op, vlib.FaultSpec{Point: p}})
			}
			for _, p := range []string{vlib.DExec, vlib.DQuery, vlib.DRowsNext} {
				out = append(out, faultSite{op, vlib.FaultSpec{Point: p, Nth: 1}})
			}
			for _, p := range []string{vlib.DPrepare, vlib.DStmtClose} {
				out = append(out, faultSite{op, vlib.FaultSpec{Point: p, Nth: 0}}, faultSite{op, vlib.FaultSpec{Point: p, Nth: 1}})
			}
		}
	}
	return out
}

func TestC07Enum(t *testing.T) {
	st := vlib.StatsFor("C07", "enum", "exhaustive: 5 three-request histories (first use, growth, refresh, refused bad proof / stale / first-use-style fork) x both storages x ALL single and ALL double fault masks over interface-level and driver-level call sites, then fault-free probes; "+ruleC07)
	shard, nshards := vlib.Shard()
	cell := 0
	for _, storage := range []string{"mem", "sql"} {
		for _, base := range baseHistories() {
			sites := allSites(len(base), storage)
			var masks [][]faultSite
			masks = append(masks, nil)
			for i := range sites {
				masks = append(masks, []faultSite{sites[i]})
			}
			for i := range sites {
				for j := i + 1; j < len(sites); j++ {
					masks = append(masks, []faultSite{sites[i], sites[j]})
				}
			}
			for _, m := range masks {
				cell++
				if cell%nshards != shard {
					continue
				}
				c := &vlib.HistCase{Prop: "C07", Storage: storage, Seed: "A", Forks: []vlib.ForkSpec{{Parent: 0, At: 1}},
					Logs: []vlib.LogSpec{{Origin: "example.com/log", KeyLabel: "log0", KeyName: "logkey"}}, WKeys: vlib.ProdWKeys}
				for _, op := range base {
					c.Ops = append(c.Ops, op)
				}
				for _, fs := range m {
					c.Ops[fs.op].Faults = append(append([]vlib.FaultSpec{}, c.Ops[fs.op].Faults...), fs.f)
				}
				c = withProbes(c)
				nt, classes, err := runC07(c, st)
				st.Record(c.Hash(), nt, classes, sampleOf(c))
				if err != nil {
					vlib.SaveFailure("C07", "enum", c, err)
					b, _ := json.Marshal(m)
					t.Fatalf("C07 violated (storage %s, mask %s): %v", storage, b, err)
				}
			}
		}
	}
	st.SetExhaustive(true)
}

func init() {
	r := histReplayer(func(c *vlib.HistCase) error {
		_, _, err := runC07(c, vlib.StatsFor("C07", "hist", ruleC07))
		return err
	})
	replayers["C07/hist"] = r
	replayers["C07/enum"] = r
}
