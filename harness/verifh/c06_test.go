//go:build verif

package verifh

import (
	"bufio"
	"bytes"
	"context"
	"crypto/sha256"
	"database/sql"
	"encoding/base64"
	"encoding/hex"
	"encoding/json"
	"fmt"
	"os"
	"os/exec"
	"path/filepath"
	"strconv"
	"strings"
	"sync"
	"sync/atomic"
	"syscall"
	"testing"
	"time"

	psql "github.com/transparency-dev/witness/internal/persistence/sql"
	"github.com/transparency-dev/witness/internal/verifh/vlib"
	"github.com/transparency-dev/witness/internal/witness"
	"pgregory.net/rapid"
)

// ---------------------------------------------------------------------------------
// C06 — a crash at any instant leaves each log at the old or the new checkpoint
//
// Child "c06play": opens a file-backed SQLite database through the wrapped driver (pool
// of one connection, as production), builds a real witness and plays the case; after
// each Update returns it writes one ack line to fd 3 with a single write(2). At the
// chosen driver call (index, before|after) it SIGKILLs itself.
// Child "c06dump": a fresh process reopens the file with the plain sqlite3 driver,
// dumps what every log holds and then probes the restarted witness.

func init() {
	childMains["c06play"] = c06Play
	childMains["c06dump"] = c06Dump
}

func loadCaseEnv() (*vlib.HistCase, error) {
	b, err := os.ReadFile(os.Getenv("VERIF_C06_CASE"))
	if err != nil {
		return nil, err
	}
	var c vlib.HistCase
	if err := json.Unmarshal(b, &c); err != nil {
		return nil, err
	}
	return &c, nil
}

type ack struct {
	Op      int    `json:"op"`
	Log     int    `json:"log"`
	Verdict string `json:"verdict"`
	Size    uint64 `json:"size"`
	Root    string `json:"root"`
	OutSHA  string `json:"out_sha"`
	// driver call indices of this update's transaction (dry run bookkeeping)
	BeginIdx  int64 `json:"begin_idx"`
	CommitIdx int64 `json:"commit_idx"`
	// Side: not an ack of the history's own request but something another client obtained
	// at the instant of the kill: "dup" = a duplicate of the in-flight request was
	// acknowledged, "seen" = a read handed this checkpoint out.
	Side string `json:"side,omitempty"`
}

// inflight is the request being served when the kill point is reached.
type inflightReq struct {
	logIdx int
	logID  string
	old    uint64
	cp     []byte
	proof  [][]byte
}

// recTarget remembers the request in flight.
type recTarget struct {
	vlib.WitnessTarget
	cur *atomic.Pointer[inflightReq]
}

func (t recTarget) Update(ctx context.Context, logID string, old uint64, cp []byte, proof [][]byte, st *vlib.Step) {
	t.cur.Store(&inflightReq{logIdx: st.Req.LogIdx, logID: logID, old: old, cp: cp, proof: proof})
	t.WitnessTarget.Update(ctx, logID, old, cp, proof, st)
	t.cur.Store(nil)
}

func c06Play() int {
	c, err := loadCaseEnv()
	if err != nil {
		fmt.Fprintln(os.Stderr, "c06play:", err)
		return 3
	}
	killAt, killPhase := -1, ""
	if k := os.Getenv("VERIF_C06_KILL"); k != "" {
		parts := strings.SplitN(k, ":", 2)
		killAt, _ = strconv.Atoi(parts[0])
		killPhase = parts[1]
	}
	pipe := os.NewFile(3, "ackpipe")
	var calls int64
	var beginIdx, commitIdx int64 = -1, -1
	var killing atomic.Bool
	var cur atomic.Pointer[inflightReq]
	var sideEnv *vlib.Env
	var sideW *witness.Witness
	// side requests: what other clients of the same process can obtain at the instant of the
	// kill (they get 40 ms; on the one-connection store they normally just wait)
	side := func() {
		if sideW == nil || sideEnv == nil {
			return
		}
		var mu sync.Mutex
		emit := func(a ack) {
			b, _ := json.Marshal(a)
			mu.Lock()
			_, _ = pipe.Write(append(b, '\n'))
			mu.Unlock()
		}
		for li, id := range sideEnv.LogIDs {
			go func(li int, id string) {
				if b, err := sideW.GetCheckpoint(id); err == nil {
					h := sideEnv.ScanCheckpoint(b)
					emit(ack{Op: -1, Log: li, Verdict: vlib.VAccepted, Size: h.Size, Root: hex.EncodeToString(h.Root), Side: "seen"})
				}
			}(li, id)
		}
		if r := cur.Load(); r != nil && r.logIdx >= 0 {
			go func() {
				out, err := sideW.Update(context.Background(), r.logID, r.old, r.cp, r.proof)
				if err == nil {
					h := sideEnv.ScanCheckpoint(out)
					emit(ack{Op: -1, Log: r.logIdx, Verdict: vlib.VAccepted, Size: h.Size, Root: hex.EncodeToString(h.Root), Side: "dup"})
				}
			}()
		}
		time.Sleep(40 * time.Millisecond)
		mu.Lock() // no half-written line at the kill
	}
	vlib.Drv.SetHook(func(op, phase string) error {
		if op == vlib.DOpen || killing.Load() {
			return nil
		}
		idx := atomic.LoadInt64(&calls)
		if phase == "before" {
			idx = atomic.AddInt64(&calls, 1) - 1
			if op == vlib.DBegin {
				atomic.StoreInt64(&beginIdx, idx)
				atomic.StoreInt64(&commitIdx, -1)
			}
			if op == vlib.DCommit {
				atomic.StoreInt64(&commitIdx, idx)
			}
		} else {
			idx = idx - 1
		}
		if int(idx) == killAt && phase == killPhase {
			killing.Store(true)
			side()
			_ = syscall.Kill(os.Getpid(), syscall.SIGKILL)
			time.Sleep(10 * time.Second) // never reached
		}
		return nil
	})
	db, err := vlib.OpenVerifDB(os.Getenv("VERIF_C06_DB"))
	if err != nil {
		fmt.Fprintln(os.Stderr, "c06play:", err)
		return 3
	}
	e := vlib.NewEnv(c)
	w, err := witness.New(witness.Opts{Persistence: psql.NewPersistence(db), Signers: e.Signers(), KnownLogs: e.KnownLogs()})
	if err != nil {
		fmt.Fprintln(os.Stderr, "c06play: witness.New:", err)
		return 3
	}
	sideEnv, sideW = e, w
	loops := 1
	if n, _ := strconv.Atoi(os.Getenv("VERIF_C06_LOOPS")); n > 1 {
		loops = n
	}
	// optional op range [from, to): the history may be split over several processes
	from, _ := strconv.Atoi(os.Getenv("VERIF_C06_FROM"))
	to := len(c.Ops)
	if t, err := strconv.Atoi(os.Getenv("VERIF_C06_TO")); err == nil && t > 0 && t < to {
		to = t
	}
	allOps := c.Ops
	cc := *c
	cc.Ops = allOps[from:to]
	c = &cc
	e.Case = c
	opBase := 0
	for l := 0; l < loops; l++ {
		_, err = e.Exec(recTarget{WitnessTarget: vlib.WitnessTarget{W: w}, cur: &cur}, vlib.RunOpts{NoSnapshots: true, AfterUpdate: func(e *vlib.Env, _ vlib.Target, st *vlib.Step) error {
			a := ack{Op: from + opBase + st.Index, Log: st.Req.LogIdx, Verdict: st.Verdict, BeginIdx: atomic.LoadInt64(&beginIdx), CommitIdx: atomic.LoadInt64(&commitIdx)}
			if st.Verdict == vlib.VAccepted {
				h := e.ScanCheckpoint(st.Out)
				sum := sha256.Sum256(st.Out)
				a.Size, a.Root, a.OutSHA = h.Size, hex.EncodeToString(h.Root), hex.EncodeToString(sum[:])
			}
			b, _ := json.Marshal(a)
			_, werr := pipe.Write(append(b, '\n'))
			return werr
		}})
		if err != nil {
			fmt.Fprintln(os.Stderr, "c06play: exec:", err)
			return 3
		}
		opBase += len(c.Ops)
	}
	b, _ := json.Marshal(map[string]int64{"calls": atomic.LoadInt64(&calls)})
	_, _ = pipe.Write(append(b, '\n'))
	return 0
}

type dumpOut struct {
	Logs   []string          `json:"logs"` // what GetLogs lists after the restart
	Rows   map[string]string `json:"rows"` // log index -> base64 checkpoint
	Probes []dumpProbe       `json:"probes"`
	Err    string            `json:"err,omitempty"`
}

type dumpProbe struct {
	Log     int    `json:"log"`
	Kind    string `json:"kind"`
	Verdict string `json:"verdict"`
	Changed bool   `json:"changed"`
	Detail  string `json:"detail,omitempty"`
}

func c06Dump() int {
	out := dumpOut{Rows: map[string]string{}}
	emit := func() int {
		b, _ := json.Marshal(out)
		fmt.Println(string(b))
		return 0
	}
	c, err := loadCaseEnv()
	if err != nil {
		out.Err = err.Error()
		return emit()
	}
	db, err := sql.Open("sqlite3", os.Getenv("VERIF_C06_DB"))
	if err != nil {
		out.Err = "open: " + err.Error()
		return emit()
	}
	db.SetMaxOpenConns(1)
	e := vlib.NewEnv(c)
	w, err := witness.New(witness.Opts{Persistence: psql.NewPersistence(db), Signers: e.Signers(), KnownLogs: e.KnownLogs()})
	if err != nil {
		out.Err = "witness.New after restart: " + err.Error()
		return emit()
	}
	ctx := context.Background()
	out.Logs, err = w.GetLogs()
	if err != nil {
		out.Err = "GetLogs after restart: " + err.Error()
		return emit()
	}
	for i, id := range e.LogIDs {
		b, err := w.GetCheckpoint(id)
		if err != nil {
			continue
		}
		out.Rows[strconv.Itoa(i)] = base64.StdEncoding.EncodeToString(b)
	}
	// probes against the restarted witness
	for i, id := range e.LogIDs {
		raw, err := w.GetCheckpoint(id)
		if err != nil {
			continue
		}
		h := e.ScanCheckpoint(raw)
		if !h.ParseOK {
			out.Probes = append(out.Probes, dumpProbe{Log: i, Kind: "unscannable", Detail: "stored checkpoint does not scan"})
			continue
		}
		if h.Branch == nil {
			// the log itself committed to a root that is no tree of the universe (accepted on
			// first use): there is no honest continuation or fork to probe with
			out.Probes = append(out.Probes, dumpProbe{Log: i, Kind: "unknown-tree"})
			continue
		}
		key := e.LogKeys[i]
		origin := c.Logs[i].Origin
		mk := func(br *vlib.Branch, size uint64) []byte {
			root := br.Root(size)
			text := vlib.CheckpointText(origin, size, root[:], nil)
			return vlib.Note(text, key.SigLine(text))
		}
		if h.Size >= 1 {
			fork := h.Branch.ForkAt(h.Size-1, 99)
			// a fork of the witnessed history, with its own (valid for the fork) proof
			_, err := w.Update(ctx, id, h.Size, mk(fork, h.Size+2), fork.Consistency(h.Size, h.Size+2))
			after, _ := w.GetCheckpoint(id)
			out.Probes = append(out.Probes, dumpProbe{Log: i, Kind: "fork", Verdict: vlib.Classify(err), Changed: !bytes.Equal(after, raw)})
			// the same fork presented as first use
			_, err = w.Update(ctx, id, 0, mk(fork, h.Size+2), nil)
			after, _ = w.GetCheckpoint(id)
			out.Probes = append(out.Probes, dumpProbe{Log: i, Kind: "fork-as-first-use", Verdict: vlib.Classify(err), Changed: !bytes.Equal(after, raw)})
			// same size, different root
			_, err = w.Update(ctx, id, h.Size, mk(fork, h.Size), nil)
			after, _ = w.GetCheckpoint(id)
			out.Probes = append(out.Probes, dumpProbe{Log: i, Kind: "same-size-fork", Verdict: vlib.Classify(err), Changed: !bytes.Equal(after, raw)})
		}
		delta := uint64(3)
		if h.Size == 0 {
			delta = 0 // growth from a stored size 0 is known finding F2
		}
		ret, err := w.Update(ctx, id, h.Size, mk(h.Branch, h.Size+delta), h.Branch.Consistency(h.Size, h.Size+delta))
		p := dumpProbe{Log: i, Kind: "honest", Verdict: vlib.Classify(err), Detail: fmt.Sprint(err)}
		if err == nil {
			// acknowledged by the restarted process: it must really be stored
			back, rerr := w.GetCheckpoint(id)
			if rerr != nil || !bytes.Equal(back, ret) {
				p.Kind, p.Detail = "honest-not-stored", fmt.Sprintf("the restarted witness acknowledged %d -> %d but a read returns %d bytes (err %v), not what it returned", h.Size, h.Size+delta, len(back), rerr)
			}
		}
		out.Probes = append(out.Probes, p)
	}
	return emit()
}

// --- parent ------------------------------------------------------------------------

type c06Model struct {
	calls int
	acks  []ack
}

// lastSide holds the side acks of the most recent runChild call of this goroutine's
// crash run (returned separately to keep runChild's signature).
func runChildSide(mode, casePath, dbPath, kill string, loops int, killAfter time.Duration, opRange ...int) (acks, side []ack, calls int, stdout []byte, state *os.ProcessState, err error) {
	var sa []ack
	acks, calls, stdout, state, err = runChildInner(&sa, mode, casePath, dbPath, kill, loops, killAfter, opRange...)
	return acks, sa, calls, stdout, state, err
}

func runChild(mode, casePath, dbPath, kill string, loops int, killAfter time.Duration, opRange ...int) (acks []ack, calls int, stdout []byte, state *os.ProcessState, err error) {
	var sa []ack
	return runChildInner(&sa, mode, casePath, dbPath, kill, loops, killAfter, opRange...)
}

func runChildInner(sideOut *[]ack, mode, casePath, dbPath, kill string, loops int, killAfter time.Duration, opRange ...int) (acks []ack, calls int, stdout []byte, state *os.ProcessState, err error) {
	var sideAcks []ack
	defer func() { *sideOut = sideAcks }()
	cmd := exec.Command(os.Args[0])
	rng := []int{0, 0}
	if len(opRange) == 2 {
		rng = opRange
	}
	cmd.Env = append(os.Environ(), "VERIF_C06_FROM="+strconv.Itoa(rng[0]), "VERIF_C06_TO="+strconv.Itoa(rng[1]), "VERIF_CHILD="+mode, "VERIF_C06_CASE="+casePath, "VERIF_C06_DB="+dbPath, "VERIF_C06_KILL="+kill, "VERIF_C06_LOOPS="+strconv.Itoa(loops))
	var so, se bytes.Buffer
	cmd.Stdout, cmd.Stderr = &so, &se
	pr, pw, perr := os.Pipe()
	if perr != nil {
		return nil, 0, nil, nil, perr
	}
	cmd.ExtraFiles = []*os.File{pw}
	if err := cmd.Start(); err != nil {
		pr.Close()
		pw.Close()
		return nil, 0, nil, nil, err
	}
	pw.Close()
	if killAfter > 0 {
		go func() {
			time.Sleep(killAfter)
			_ = cmd.Process.Signal(syscall.SIGKILL)
		}()
	}
	var lines []string
	sc := bufio.NewScanner(pr)
	sc.Buffer(make([]byte, 1<<20), 1<<20)
	for sc.Scan() {
		lines = append(lines, sc.Text())
	}
	pr.Close()
	werr := cmd.Wait()
	_ = werr
	calls = -1
	sideAcks = nil
	for _, l := range lines {
		if strings.HasPrefix(l, `{"calls"`) {
			var m map[string]int
			_ = json.Unmarshal([]byte(l), &m)
			calls = m["calls"]
			continue
		}
		var a ack
		if json.Unmarshal([]byte(l), &a) == nil {
			if a.Side != "" {
				sideAcks = append(sideAcks, a)
			} else {
				acks = append(acks, a)
			}
		}
	}
	if cmd.ProcessState != nil && cmd.ProcessState.ExitCode() == 3 {
		return acks, calls, so.Bytes(), cmd.ProcessState, fmt.Errorf("child %s failed: %s", mode, se.String())
	}
	return acks, calls, so.Bytes(), cmd.ProcessState, nil
}

type held struct {
	present bool
	size    uint64
	root    string
}

// checkAfterCrash is the C06 oracle for one crash run.
func checkAfterCrash(e *vlib.Env, c *vlib.HistCase, full []ack, got []ack, dump dumpOut, what string) (string, error) {
	if dump.Err != "" {
		return "", fmt.Errorf("%s: the store cannot be reopened by a fresh process: %s", what, dump.Err)
	}
	nops := len(full)
	// states per log after each op of the fault-free run (ops repeat in loop mode)
	state := func(upto int) map[int]held {
		m := map[int]held{}
		for i := 0; i < upto && i < nops; i++ {
			a := full[i]
			if a.Verdict == vlib.VAccepted {
				m[a.Log] = held{true, a.Size, a.Root}
			}
		}
		return m
	}
	j := len(got) // op in progress when the process died (or nops if it finished)
	for i, a := range got {
		if i < nops && (a.Verdict != full[i].Verdict || a.Size != full[i].Size || a.Root != full[i].Root) {
			return "", fmt.Errorf("%s: HARNESS: ack %d differs from the fault-free run (%+v vs %+v)", what, i, a, full[i])
		}
	}
	before, after := state(j), state(j+1)
	outcome := "old"
	for li := range c.Logs {
		b64, present := dump.Rows[strconv.Itoa(li)]
		var h vlib.Held
		if present {
			raw, _ := base64.StdEncoding.DecodeString(b64)
			h = e.ScanCheckpoint(raw)
			// complete, validly cosigned
			text, sigs, ok := vlib.SplitNote(raw)
			if !ok || !h.ParseOK {
				return "", fmt.Errorf("%s: after restart log %d holds bytes that are not a complete checkpoint: %q", what, li, raw)
			}
			logOK := false
			for _, sg := range sigs {
				if e.LogKeys[li].VerifyPlain(text, sg) {
					logOK = true
				}
			}
			if !logOK {
				return "", fmt.Errorf("%s: after restart log %d holds a checkpoint without a valid log signature", what, li)
			}
			for wi, wk := range e.WKeys {
				n := 0
				for _, sg := range sigs {
					if wk.Kind == vlib.WKCosig {
						if _, ok := wk.K.VerifyCosig(text, sg); ok {
							n++
						}
					} else if wk.K.VerifyPlain(text, sg) {
						n++
					}
				}
				if n != 1 {
					return "", fmt.Errorf("%s: after restart log %d holds a checkpoint with %d valid signatures of witness key %d, want 1", what, li, n, wi)
				}
			}
		}
		cur := held{present, h.Size, hex.EncodeToString(h.Root)}
		if !present {
			cur = held{}
		}
		b, a := before[li], after[li]
		switch {
		case cur == b && cur == a:
		case cur == b:
		case cur == a:
			outcome = "new"
		default:
			return "", fmt.Errorf("%s: after restart log %d holds %+v, which is neither the state before the interrupted update (%+v) nor the one being written (%+v)", what, li, cur, b, a)
		}
	}
	// the list of known logs is exactly the logs that hold a checkpoint
	{
		want := map[string]bool{}
		for li := range c.Logs {
			if _, ok := dump.Rows[strconv.Itoa(li)]; ok {
				want[e.LogIDs[li]] = true
			}
		}
		seen := map[string]bool{}
		for _, id := range dump.Logs {
			if seen[id] {
				return "", fmt.Errorf("%s: after restart the log list contains %s twice", what, id[:8])
			}
			seen[id] = true
			if !want[id] {
				return "", fmt.Errorf("%s: after restart the witness lists log %s but holds no checkpoint for it (half-written first use)", what, id[:8])
			}
		}
		for id := range want {
			if !seen[id] {
				return "", fmt.Errorf("%s: after restart the witness holds a checkpoint for %s but does not list it", what, id[:8])
			}
		}
	}
	// every acknowledged update is still in force
	for i, a := range got {
		if a.Verdict != vlib.VAccepted {
			continue
		}
		b64, present := dump.Rows[strconv.Itoa(a.Log)]
		if !present {
			return "", fmt.Errorf("%s: update %d was acknowledged as accepted (size %d) but after restart the log has no checkpoint: silent return to first use", what, i, a.Size)
		}
		raw, _ := base64.StdEncoding.DecodeString(b64)
		h := e.ScanCheckpoint(raw)
		if h.Size < a.Size {
			return "", fmt.Errorf("%s: update %d was acknowledged at size %d but after restart the log is at size %d", what, i, a.Size, h.Size)
		}
	}
	// the restarted witness
	for _, p := range dump.Probes {
		switch p.Kind {
		case "unscannable", "honest-not-stored":
			return "", fmt.Errorf("%s: after restart log %d: %s", what, p.Log, p.Detail)
		case "fork", "fork-as-first-use", "same-size-fork":
			if p.Verdict == vlib.VAccepted || p.Changed {
				return "", fmt.Errorf("%s: the restarted witness accepted a %s of the history it had acknowledged for log %d (verdict %s, state changed %v)", what, p.Kind, p.Log, p.Verdict, p.Changed)
			}
		case "honest":
			if p.Verdict != vlib.VAccepted {
				return "", fmt.Errorf("%s: the restarted witness refuses the honest continuation for log %d: %s (%s)", what, p.Log, p.Verdict, p.Detail)
			}
		}
	}
	return outcome, nil
}

// checkSide: whatever another client obtained from the process at the instant of the kill
// (a duplicate of the in-flight request acknowledged, a checkpoint handed out by a read)
// must be in force after the restart.
func checkSide(e *vlib.Env, side []ack, dump dumpOut, what string) error {
	for _, a := range side {
		b64, present := dump.Rows[strconv.Itoa(a.Log)]
		kind := "a concurrent read handed out"
		if a.Side == "dup" {
			kind = "a concurrent duplicate of the in-flight request was acknowledged with"
		}
		if !present {
			return fmt.Errorf("%s: at the instant of the kill %s a cosigned checkpoint of size %d for log %d, but after restart the log has none", what, kind, a.Size, a.Log)
		}
		raw, _ := base64.StdEncoding.DecodeString(b64)
		h := e.ScanCheckpoint(raw)
		if h.Size < a.Size || (h.Size == a.Size && hex.EncodeToString(h.Root) != a.Root) {
			return fmt.Errorf("%s: at the instant of the kill %s a cosigned checkpoint of size %d for log %d, but after restart the log is at size %d: the witness can now cosign a conflicting size-%d tree", what, kind, a.Size, a.Log, h.Size, a.Size)
		}
	}
	return nil
}

var profC06 = vlib.Profile{
	Prop: "C06", MinLogs: 1, MaxLogs: 3, MinOps: 1, MaxOps: 5,
	Storages: []string{"sqlfile"}, MaxJump: 40, OtherLogPct: 35, Decorate: 10, NoReplay: true,
	Weights: map[string]int{"grow": 50, "refresh": 16, "badproof": 8, "wrongold": 6, "fork": 8, "wrongkey": 4, "mismatch": 4, "tofufork": 4},
}

const ruleC06 = "generated histories (1-5 updates over 1-3 logs: first use, growth, refresh, refused) on file-backed SQLite with a pool of one connection; for each history EVERY database-driver call boundary (before and after each of begin/prepare/query/row fetch/exec/stmt close/commit/rollback, incl. table creation) is a crash point at which the serving process SIGKILLs itself; a fresh process reopens the file; non-trivial = crash point strictly inside an accepted update of a log that already had a checkpoint (between its begin and the return of its commit); distinct by (case hash, crash point)"

var scratchSeq int64

func scratchDir() string {
	d := os.Getenv("VERIF_SCRATCH")
	if d == "" {
		d = os.TempDir()
	}
	p := filepath.Join(d, fmt.Sprintf("c06-%d-%d", os.Getpid(), atomic.AddInt64(&scratchSeq, 1)))
	_ = os.MkdirAll(p, 0o755)
	return p
}

func runC06(c *vlib.HistCase, st *vlib.Stats, onlyPoint string) (bool, []string, error) {
	dir := scratchDir()
	defer os.RemoveAll(dir)
	casePath := filepath.Join(dir, "case.json")
	b, _ := json.Marshal(c)
	if err := os.WriteFile(casePath, b, 0o644); err != nil {
		return false, nil, fmt.Errorf("harness: %v", err)
	}
	e := vlib.NewEnv(c)
	// optional restart inside the history: ops[:k] are served by one process (which exits
	// normally), ops[k:] by a second one, and the crash points are those of the second
	k := 0
	if c.Extra != nil {
		switch v := c.Extra["restart_at"].(type) {
		case float64:
			k = int(v)
		case int:
			k = v
		}
	}
	if k < 0 || k >= len(c.Ops) {
		k = 0
	}
	base := filepath.Join(dir, "base.db")
	var pre []ack
	if k > 0 {
		var perr error
		pre, _, _, _, perr = runChild("c06play", casePath, base, "", 1, 0, 0, k)
		if perr != nil || len(pre) != k {
			return false, nil, fmt.Errorf("harness: first process of the history failed: %v (acks=%d)", perr, len(pre))
		}
	}
	fresh := func(name string) string {
		p := filepath.Join(dir, name)
		if k > 0 {
			if b, err := os.ReadFile(base); err == nil {
				_ = os.WriteFile(p, b, 0o644)
			}
		}
		return p
	}
	// dry run: acks and number of driver calls of the fault-free execution
	full2, calls, _, _, err := runChild("c06play", casePath, fresh("dry.db"), "", 1, 0, k, len(c.Ops))
	full := append(append([]ack{}, pre...), full2...)
	if err != nil || calls <= 0 || len(full) != len(c.Ops) {
		return false, nil, fmt.Errorf("harness: dry run failed: %v (calls=%d acks=%d)", err, calls, len(full))
	}
	// call index ranges of each op are not needed: the ack count tells which op was in progress
	type point struct {
		k     int
		phase string
	}
	var points []point
	for k := 0; k < calls; k++ {
		points = append(points, point{k, "before"}, point{k, "after"})
	}
	if onlyPoint != "" {
		parts := strings.SplitN(onlyPoint, ":", 2)
		k, _ := strconv.Atoi(parts[0])
		points = []point{{k, parts[1]}}
	}
	type res struct {
		p       point
		outcome string
		inside  bool
		err     error
	}
	results := make([]res, len(points))
	var wg sync.WaitGroup
	sem := make(chan struct{}, 16)
	for i, p := range points {
		wg.Add(1)
		go func(i int, p point) {
			defer wg.Done()
			sem <- struct{}{}
			defer func() { <-sem }()
			dbp := fresh(fmt.Sprintf("crash-%d-%s.db", p.k, p.phase))
			what := fmt.Sprintf("crash %s driver call %d of %d", p.phase, p.k, calls)
			if k > 0 {
				what += fmt.Sprintf(" (of the process started after op %d)", k)
			}
			got2, sideGot, _, _, ps, err := runChildSide("c06play", casePath, dbp, fmt.Sprintf("%d:%s", p.k, p.phase), 1, 0, k, len(c.Ops))
			got := append(append([]ack{}, pre...), got2...)
			if err != nil {
				results[i] = res{p: p, err: fmt.Errorf("harness: %v", err)}
				return
			}
			if ps == nil || ps.Success() {
				results[i] = res{p: p, err: fmt.Errorf("harness: %s: the child was not killed", what)}
				return
			}
			_, _, so, _, err := runChild("c06dump", casePath, dbp, "", 1, 0)
			if err != nil {
				results[i] = res{p: p, err: fmt.Errorf("harness: dump: %v", err)}
				return
			}
			var dump dumpOut
			if jerr := json.Unmarshal(bytes.TrimSpace(so), &dump); jerr != nil {
				results[i] = res{p: p, err: fmt.Errorf("%s: the reopening process produced no result (%v): %q", what, jerr, so)}
				return
			}
			outcome, oerr := checkAfterCrash(e, c, full, got, dump, what)
			if oerr == nil {
				oerr = checkSide(e, sideGot, dump, what)
			}
			// inside an accepted update of a log that already had a checkpoint?
			inside := false
			j := len(got)
			if j < len(full) && full[j].Verdict == vlib.VAccepted && full[j].CommitIdx >= 0 {
				k := int64(p.k)
				afterBegin := k > full[j].BeginIdx || (k == full[j].BeginIdx && p.phase == "after")
				beforeCommitReturn := k < full[j].CommitIdx || (k == full[j].CommitIdx && p.phase == "before")
				if afterBegin && beforeCommitReturn {
					for x := 0; x < j; x++ {
						if full[x].Verdict == vlib.VAccepted && full[x].Log == full[j].Log {
							inside = true
						}
					}
				}
			}
			results[i] = res{p: p, outcome: outcome, inside: inside, err: oerr}
			for _, suffix := range []string{"", "-journal", "-wal", "-shm"} {
				os.Remove(dbp + suffix)
			}
		}(i, p)
	}
	wg.Wait()
	nontrivial := false
	var classes []string
	for _, r := range results {
		if r.err != nil {
			continue
		}
		if r.inside {
			nontrivial = true
		}
		st.Record(fmt.Sprintf("%s/%d:%s", c.Hash(), r.p.k, r.p.phase), r.inside, []string{"left:" + r.outcome}, map[string]any{"case": c.Hash(), "ops": len(c.Ops), "crash_call": r.p.k, "phase": r.p.phase, "left": r.outcome})
		classes = append(classes, "left:"+r.outcome)
	}
	for _, r := range results {
		if r.err != nil {
			if c.Extra == nil {
				c.Extra = map[string]any{}
			}
			c.Extra["crash_point"] = fmt.Sprintf("%d:%s", r.p.k, r.p.phase)
			return nontrivial, classes, r.err
		}
	}
	return nontrivial, classes, nil
}

func TestC06Points(t *testing.T) {
	st := vlib.StatsFor("C06", "points", ruleC06)
	sc := vlib.StatsFor("C06", "cases", "histories whose crash points were enumerated completely (each history = one generated case); non-trivial = history with a crash point inside an accepted update of a log that already had a checkpoint")
	rapid.Check(t, func(rt *rapid.T) {
		c := vlib.GenHist(rt, profC06)
		if len(c.Ops) >= 2 && rapid.Bool().Draw(rt, "restart") {
			c.Extra = map[string]any{"restart_at": rapid.IntRange(1, len(c.Ops)-1).Draw(rt, "restart_at")}
		}
		nt, classes, err := runC06(c, st, "")
		sc.Record(c.Hash(), nt, nil, sampleOf(c))
		_ = classes
		if err != nil {
			vlib.SaveFailure("C06", "points", c, err)
			rt.Fatalf("C06 violated: %v", err)
		}
	})
}

// TestC06Random: SIGKILL from outside at a random instant while the child loops over the
// history (reaches instants inside SQLite's commit that call boundaries cannot).
func TestC06Random(t *testing.T) {
	st := vlib.StatsFor("C06", "random", "SIGKILL from the parent after a drawn delay while the child replays the history in a loop; same oracle; non-trivial = the kill landed while updates were in flight (>=1 ack, not finished)")
	rapid.Check(t, func(rt *rapid.T) {
		c := vlib.GenHist(rt, profC06)
		// only growth/refresh so that the looped history stays meaningful
		delayUs := rapid.IntRange(200, 60000).Draw(rt, "delay_us")
		dir := scratchDir()
		defer os.RemoveAll(dir)
		casePath := filepath.Join(dir, "case.json")
		b, _ := json.Marshal(c)
		_ = os.WriteFile(casePath, b, 0o644)
		const loops = 40
		full, calls, _, _, err := runChild("c06play", casePath, filepath.Join(dir, "dry.db"), "", loops, 0)
		if err != nil || calls <= 0 {
			rt.Fatalf("harness: dry run failed: %v", err)
		}
		dbp := filepath.Join(dir, "rand.db")
		got, _, _, ps, err := runChild("c06play", casePath, dbp, "", loops, time.Duration(delayUs)*time.Microsecond)
		if err != nil {
			rt.Fatalf("harness: %v", err)
		}
		killed := ps != nil && !ps.Success()
		_, _, so, _, err := runChild("c06dump", casePath, dbp, "", 1, 0)
		if err != nil {
			rt.Fatalf("harness: dump: %v", err)
		}
		var dump dumpOut
		what := fmt.Sprintf("SIGKILL after %dus (%d acks of %d)", delayUs, len(got), len(full))
		if jerr := json.Unmarshal(bytes.TrimSpace(so), &dump); jerr != nil {
			err = fmt.Errorf("%s: the reopening process produced no result: %q", what, so)
		} else {
			e := vlib.NewEnv(c)
			_, err = checkAfterCrash(e, c, full, got, dump, what)
		}
		st.Record(fmt.Sprintf("%s/%d", c.Hash(), delayUs), killed && len(got) > 0 && len(got) < len(full), []string{fmt.Sprintf("killed:%v", killed)}, map[string]any{"case": c.Hash(), "delay_us": delayUs, "acks": len(got), "of": len(full)})
		if err != nil {
			vlib.SaveFailure("C06", "random", c, err)
			rt.Fatalf("C06 violated: %v", err)
		}
	})
}

func init() {
	replayers["C06/points"] = histReplayer(func(c *vlib.HistCase) error {
		p := ""
		if c.Extra != nil {
			if s, ok := c.Extra["crash_point"].(string); ok {
				p = s
			}
		}
		cc := *c
		cc.Extra = nil
		if c.Extra != nil && c.Extra["restart_at"] != nil {
			cc.Extra = map[string]any{"restart_at": c.Extra["restart_at"]}
		}
		_, _, err := runC06(&cc, vlib.StatsFor("C06", "points", ruleC06), p)
		return err
	})
	replayers["C06/random"] = histReplayer(func(c *vlib.HistCase) error {
		cc := *c
		cc.Extra = nil
		_, _, err := runC06(&cc, vlib.StatsFor("C06", "points", ruleC06), "")
		return err
	})
}
