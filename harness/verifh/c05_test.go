//go:build verif

package verifh

import (
	"context"
	"database/sql"
	"encoding/hex"
	"encoding/json"
	"fmt"
	"hash/fnv"
	"sort"
	"strings"
	"sync"
	"testing"

	"github.com/transparency-dev/witness/internal/persistence"
	"github.com/transparency-dev/witness/internal/persistence/inmemory"
	psql "github.com/transparency-dev/witness/internal/persistence/sql"
	"github.com/transparency-dev/witness/internal/verifh/vlib"
	"github.com/transparency-dev/witness/internal/witness"
	"google.golang.org/grpc/codes"
	"google.golang.org/grpc/status"
	"pgregory.net/rapid"
)

// ---------------------------------------------------------------------------------
// C05 — concurrent updates are linearizable; state never regresses

// ConcReq is one concurrent request.
type ConcReq struct {
	Kind   string `json:"kind"` // update | read
	Log    int    `json:"log"`
	Branch int    `json:"branch"`
	Size   uint64 `json:"size"`
	Old    uint64 `json:"old"`
	Empty  bool   `json:"empty_proof,omitempty"` // send an empty proof instead of the correct one from Old
}

// ConcCase is a scenario plus (optionally) one schedule.
type ConcCase struct {
	Name    string           `json:"name"`
	Storage string           `json:"storage"`
	Forks   []vlib.ForkSpec  `json:"forks"`
	NLogs   int              `json:"nlogs"`
	Plant   []int64          `json:"plant"` // per log: size planted sequentially before the concurrent phase (-1 none)
	Reqs    []ConcReq        `json:"reqs"`
	Choices []int            `json:"choices"`
	Extra   map[string]any   `json:"extra,omitempty"`
}

type outcome struct {
	Kind string // accepted | refused:<verdict> | storage-error | read | read-none | read-error
	Size uint64
	Root string
}

func (o outcome) String() string {
	if o.Kind == "logs" {
		return fmt.Sprintf("logs(%d)", len(strings.Split(o.Root, ",")))
	}
	if strings.HasPrefix(o.Kind, "probe:accepted") {
		return fmt.Sprintf("probe-accepted(%d)", o.Size)
	}
	if o.Kind == "accepted" || o.Kind == "read" {
		return fmt.Sprintf("%s(%d,%s)", o.Kind, o.Size, o.Root[:min(8, len(o.Root))])
	}
	return o.Kind
}

type concEnv struct {
	c        *ConcCase
	branches []*vlib.Branch
	keys     []*vlib.Key
	origins  []string
	env      *vlib.Env
	db       *sql.DB
}

func newConcEnv(c *ConcCase) *concEnv {
	hc := &vlib.HistCase{Prop: "C05", Storage: c.Storage, Seed: "A", Forks: c.Forks, WKeys: vlib.ProdWKeys}
	for i := 0; i < c.NLogs; i++ {
		hc.Logs = append(hc.Logs, vlib.LogSpec{Origin: fmt.Sprintf("example.com/log%d", i), KeyLabel: fmt.Sprintf("log%d", i), KeyName: fmt.Sprintf("logkey%d", i)})
	}
	e := vlib.NewEnv(hc)
	ce := &concEnv{c: c, env: e, branches: e.Branches, keys: e.LogKeys}
	for _, l := range hc.Logs {
		ce.origins = append(ce.origins, l.Origin)
	}
	return ce
}

func (ce *concEnv) cp(log, branch int, size uint64) []byte {
	br := ce.branches[branch%len(ce.branches)]
	root := br.Root(size)
	text := vlib.CheckpointText(ce.origins[log], size, root[:], nil)
	return vlib.Note(text, ce.keys[log].SigLine(text))
}

func (ce *concEnv) newWitness(storage string) (*witness.Witness, *vlib.IPersist, func(), error) {
	var p persistence.LogStatePersistence
	closer := func() {}
	ce.db = nil
	if storage == "sql" {
		db, err := sql.Open("sqlite3", ":memory:")
		if err != nil {
			return nil, nil, nil, err
		}
		db.SetMaxOpenConns(1) // cmd/omniwitness/monolith.go:134-135
		ce.db = db
		p = psql.NewPersistence(db)
		closer = func() { _ = db.Close() }
	} else {
		p = inmemory.NewPersistence()
	}
	ip := vlib.NewIPersist(p)
	w, err := witness.New(witness.Opts{Persistence: ip, Signers: ce.env.Signers(), KnownLogs: ce.env.KnownLogs()})
	if err != nil {
		closer()
		return nil, nil, nil, err
	}
	for li, s := range ce.c.Plant {
		if s < 0 {
			continue
		}
		if _, err := w.Update(context.Background(), ce.env.LogIDs[li], 0, ce.cp(li, 0, uint64(s)), nil); err != nil {
			closer()
			return nil, nil, nil, fmt.Errorf("plant: %v", err)
		}
	}
	return w, ip, closer, nil
}

func (ce *concEnv) do(w *witness.Witness, r ConcReq) (res outcome) {
	// a panic in the code under test is an outcome (one that no sequential order produces),
	// not a crash of the check
	defer func() {
		if p := recover(); p != nil {
			res = outcome{Kind: fmt.Sprintf("PANIC(%.120v)", p)}
		}
	}()
	id := ce.env.LogIDs[r.Log]
	if r.Kind == "read" {
		b, err := w.GetCheckpoint(id)
		if err != nil {
			if status.Code(err) == codes.NotFound {
				return outcome{Kind: "read-none"}
			}
			return outcome{Kind: "read-error"}
		}
		h := ce.env.ScanCheckpoint(b)
		return outcome{Kind: "read", Size: h.Size, Root: hex.EncodeToString(h.Root)}
	}
	br := ce.branches[r.Branch%len(ce.branches)]
	var proof [][]byte
	if !r.Empty && r.Old > 0 && r.Old < r.Size {
		proof = br.Consistency(r.Old, r.Size)
	}
	out, err := w.Update(context.Background(), id, r.Old, ce.cp(r.Log, r.Branch, r.Size), proof)
	v := vlib.Classify(err)
	switch v {
	case vlib.VAccepted:
		h := ce.env.ScanCheckpoint(out)
		return outcome{Kind: "accepted", Size: h.Size, Root: hex.EncodeToString(h.Root)}
	case vlib.VOther:
		return outcome{Kind: "storage-error"}
	}
	return outcome{Kind: "refused:" + v}
}

func (ce *concEnv) finalState(w *witness.Witness) []outcome {
	var out []outcome
	for li := range ce.origins {
		out = append(out, ce.do(w, ConcReq{Kind: "read", Log: li}))
	}
	// the list of known logs is part of the state (sorted; duplicates would show)
	logs, err := w.GetLogs()
	sort.Strings(logs)
	o := outcome{Kind: "logs", Root: strings.Join(logs, ",")}
	if err != nil {
		o.Kind = "logs-error"
	}
	out = append(out, o)
	// and the witness must be able to carry on: one honest growth step per log from whatever
	// it holds now (in-process state that fell behind storage shows here, not in the reads)
	for li := range ce.origins {
		p := outcome{Kind: "probe-skipped"}
		if raw, err := w.GetCheckpoint(ce.env.LogIDs[li]); err == nil {
			h := ce.env.ScanCheckpoint(raw)
			for bi, b := range ce.branches {
				if h.ParseOK && h.Branch == b {
					p = ce.do(w, ConcReq{Kind: "update", Log: li, Branch: bi, Old: h.Size, Size: h.Size + 3})
					p.Kind = "probe:" + p.Kind
					break
				}
			}
		}
		out = append(out, p)
	}
	return out
}

// refOutcomes runs the requests in the given order, one at a time, on a fresh witness
// (the sequential reference). Results are cached per scenario.
type refCache struct {
	mu sync.Mutex
	m  map[string][]outcome
}

func (ce *concEnv) sequential(order []int, cache *refCache) ([]outcome, []outcome, error) {
	key := fmt.Sprint(order)
	cache.mu.Lock()
	if v, ok := cache.m[key]; ok {
		cache.mu.Unlock()
		n := 2*len(ce.origins) + 1
		return v[:len(v)-n], v[len(v)-n:], nil
	}
	cache.mu.Unlock()
	w, _, closer, err := ce.newWitness("mem")
	if err != nil {
		return nil, nil, err
	}
	defer closer()
	outs := make([]outcome, 0, len(order))
	for _, i := range order {
		outs = append(outs, ce.do(w, ce.c.Reqs[i]))
	}
	fin := ce.finalState(w)
	cache.mu.Lock()
	cache.m[key] = append(append([]outcome{}, outs...), fin...)
	cache.mu.Unlock()
	return outs, fin, nil
}

func permutations(xs []int) [][]int {
	if len(xs) <= 1 {
		return [][]int{append([]int{}, xs...)}
	}
	var out [][]int
	for i := range xs {
		rest := append(append([]int{}, xs[:i]...), xs[i+1:]...)
		for _, p := range permutations(rest) {
			out = append(out, append([]int{xs[i]}, p...))
		}
	}
	return out
}

// explain looks for a sequential order, compatible with real time, that produces the
// observed outcomes (storage errors = permitted no-ops when they overlapped a write on
// the same log).
func (ce *concEnv) explain(obs []outcome, fin []outcome, res vlib.SchedResult, cache *refCache) error {
	n := len(obs)
	var active []int
	for i := 0; i < n; i++ {
		if obs[i].Kind == "storage-error" {
			overl := false
			for j := 0; j < n; j++ {
				if j == i || ce.c.Reqs[j].Kind != "update" || ce.c.Reqs[j].Log != ce.c.Reqs[i].Log {
					continue
				}
				if res.Invoke[i] <= res.Response[j] && res.Invoke[j] <= res.Response[i] {
					overl = true
				}
			}
			if !overl {
				return fmt.Errorf("request %d failed with a storage error although no other write to the same log overlapped it", i)
			}
			continue
		}
		if obs[i].Kind == "read-error" {
			return fmt.Errorf("read %d failed", i)
		}
		active = append(active, i)
	}
	var tried []string
	for _, perm := range permutations(active) {
		ok := true
		pos := map[int]int{}
		for k, i := range perm {
			pos[i] = k
		}
		for _, i := range perm {
			for _, j := range perm {
				if i != j && res.Response[i] < res.Invoke[j] && pos[i] > pos[j] {
					ok = false
				}
			}
		}
		if !ok {
			continue
		}
		ref, rfin, err := ce.sequential(perm, cache)
		if err != nil {
			return fmt.Errorf("harness: %v", err)
		}
		match := true
		for k, i := range perm {
			if ref[k] != obs[i] {
				match = false
			}
		}
		for li := range fin {
			if fin[li] != rfin[li] {
				match = false
			}
		}
		if match {
			return nil
		}
		tried = append(tried, fmt.Sprintf("%v->%v final %v", perm, ref, rfin))
	}
	return fmt.Errorf("NOT LINEARIZABLE: observed outcomes %v (invoke %v, response %v), final state %v; no sequential order compatible with real time explains them (candidates: %s)", obs, res.Invoke, res.Response, fin, strings.Join(tried, " | "))
}

// runSchedule executes one schedule of the scenario and checks it.
// scheduleObs is what the concurrent phase of the last schedule did: per-request outcomes
// and the movement of the witness's counters during it (used by C20's race part).
type scheduleObs struct {
	obs      []outcome
	ids      []string
	reqs     []ConcReq
	counters map[string]int
}

var lastSchedule *scheduleObs

func runSchedule(c *ConcCase, choices []int, cache *refCache) (vlib.SchedResult, []vlib.SchedStep, error) {
	ce := newConcEnv(c)
	w, ip, closer, err := ce.newWitness(c.Storage)
	if err != nil {
		return vlib.SchedResult{}, nil, fmt.Errorf("harness: %v", err)
	}
	s := vlib.NewScheduler(ip, c.Storage == "sql")
	if db := ce.db; db != nil {
		s.ConnBusy = func() bool { return db.Stats().InUse > 0 }
	}
	obs := make([]outcome, len(c.Reqs))
	fns := make([]func(), len(c.Reqs))
	for i := range c.Reqs {
		i := i
		fns[i] = func() { obs[i] = ce.do(w, c.Reqs[i]) }
	}
	countersBefore := vlib.Metrics.Snapshot("witness_update")
	res := s.Run(fns, choices)
	lastSchedule = &scheduleObs{obs: obs, ids: ce.env.LogIDs, reqs: c.Reqs, counters: vlib.Diff(countersBefore, vlib.Metrics.Snapshot("witness_update"))}
	steps := s.Steps
	s.Detach()
	if res.Deadlock != "" {
		// the store is wedged: closing it would block too, so it is abandoned
		return res, steps, fmt.Errorf("DEADLOCK: %s", res.Deadlock)
	}
	fin := ce.finalState(w)
	closer()
	return res, steps, ce.explain(obs, fin, res, cache)
}

// --- scenarios -----------------------------------------------------------------------

func scenarios(nreq int) []*ConcCase {
	forks := []vlib.ForkSpec{{Parent: 0, At: 6}, {Parent: 0, At: 0}}
	up := func(log, branch int, old, size uint64) ConcReq {
		return ConcReq{Kind: "update", Log: log, Branch: branch, Old: old, Size: size}
	}
	rd := func(log int) ConcReq { return ConcReq{Kind: "read", Log: log} }
	var out []*ConcCase
	add := func(name string, nlogs int, plant []int64, reqs ...ConcReq) {
		if len(reqs) != nreq {
			return
		}
		out = append(out, &ConcCase{Name: name, Forks: forks, NLogs: nlogs, Plant: plant, Reqs: reqs})
	}
	// 2 requests
	add("first-use-conflict-sizes", 1, []int64{-1}, up(0, 0, 0, 5), up(0, 0, 0, 9))
	add("first-use-conflict-forks", 1, []int64{-1}, up(0, 0, 0, 9), up(0, 2, 0, 9))
	add("two-forks-same-old", 1, []int64{4}, up(0, 0, 4, 9), up(0, 1, 4, 10))
	add("two-forks-same-size", 1, []int64{4}, up(0, 0, 4, 9), up(0, 1, 4, 9))
	add("growth-vs-refresh", 1, []int64{4}, up(0, 0, 4, 9), up(0, 0, 4, 4))
	add("growth-vs-growth", 1, []int64{4}, up(0, 0, 4, 7), up(0, 0, 4, 12))
	add("chain", 1, []int64{4}, up(0, 0, 4, 7), up(0, 0, 7, 12))
	add("update-vs-read", 1, []int64{4}, up(0, 0, 4, 7), rd(0))
	add("first-use-vs-read", 1, []int64{-1}, up(0, 0, 0, 7), rd(0))
	add("different-logs", 2, []int64{4, -1}, up(0, 0, 4, 7), up(1, 0, 0, 3))
	add("refresh-vs-refresh", 1, []int64{4}, up(0, 0, 4, 4), up(0, 0, 4, 4))
	add("bad-vs-good", 1, []int64{4}, ConcReq{Kind: "update", Log: 0, Branch: 0, Old: 4, Size: 9, Empty: true}, up(0, 0, 4, 9))
	// 3 requests
	add("three-forks", 1, []int64{4}, up(0, 0, 4, 9), up(0, 1, 4, 10), up(0, 0, 4, 6))
	add("forks-and-read", 1, []int64{4}, up(0, 0, 4, 9), up(0, 1, 4, 10), rd(0))
	add("first-use-three", 1, []int64{-1}, up(0, 0, 0, 5), up(0, 2, 0, 5), up(0, 0, 0, 8))
	add("chain-three", 1, []int64{4}, up(0, 0, 4, 7), up(0, 0, 7, 12), up(0, 0, 4, 12))
	add("growth-refresh-read", 1, []int64{4}, up(0, 0, 4, 9), up(0, 0, 4, 4), rd(0))
	add("two-logs-conflict", 2, []int64{4, 2}, up(0, 0, 4, 9), up(0, 1, 4, 9), up(1, 0, 2, 5))
	add("update-two-reads", 1, []int64{4}, up(0, 0, 4, 9), rd(0), rd(0))
	// 4 requests
	add("four-mixed", 2, []int64{4, -1}, up(0, 0, 4, 9), up(0, 1, 4, 10), up(1, 0, 0, 3), rd(0))
	add("four-forks", 1, []int64{4}, up(0, 0, 4, 9), up(0, 1, 4, 10), up(0, 0, 4, 6), up(0, 0, 9, 12))
	add("four-chain-reads", 1, []int64{4}, up(0, 0, 4, 7), up(0, 0, 7, 12), rd(0), rd(0))
	return out
}

const ruleC05 = "harness-owned scheduler at storage-call granularity: requests run as goroutines on a real witness over an instrumented store; exactly one is released at a time; the resulting history (invoke = first storage call, response = return) must be explained by a real-time-compatible sequential order of the same requests on a sequential reference witness (a storage error counts as a permitted no-op only if the request overlapped another write to the same log); final state must match too. non-trivial = (mem) two same-log updates both read before either wrote, (sql) a request had to wait for the single connection; distinct by (scenario, storage, schedule)"

func schedKey(c *ConcCase, steps []vlib.SchedStep) string {
	var b strings.Builder
	b.WriteString(c.Name + "/" + c.Storage + ":")
	for _, s := range steps {
		fmt.Fprintf(&b, "%d", s.Req)
	}
	return b.String()
}

func schedSample(c *ConcCase, steps []vlib.SchedStep) any {
	var order []string
	for _, s := range steps {
		order = append(order, fmt.Sprintf("r%d@%s", s.Req, s.Point))
	}
	return map[string]any{"scenario": c.Name, "storage": c.Storage, "requests": c.Reqs, "plant": c.Plant, "schedule": order}
}

func exploreAll(t *testing.T, st *vlib.Stats, part string, scens []*ConcCase, shard, nshards int, subshard bool) {
	const subDepth = 5
	cell, skipped := 0, 0
	defer func() { st.Count("foreign-subtrees-skipped", skipped) }()
	for _, base := range scens {
		for _, storage := range []string{"mem", "sql"} {
			cell++
			if !subshard && cell%nshards != shard {
				continue
			}
			c := *base
			c.Storage = storage
			cache := &refCache{m: map[string][]outcome{}}
			var choices []int
			n := 0
			for {
				res, steps, err := runSchedule(&c, choices, cache)
				// Work unit = (cell, first subDepth choices): the DFS subtree below a
				// prefix owned by another shard is skipped after its first schedule.
				mine := true
				if subshard {
					pre := steps
					if len(pre) > subDepth {
						pre = pre[:subDepth]
					}
					h := fnv.New32a()
					fmt.Fprintf(h, "%s/%s", c.Name, storage)
					for _, s := range pre {
						fmt.Fprintf(h, ",%d", s.Chosen)
					}
					mine = int(h.Sum32()%uint32(nshards)) == shard
					if !mine && err == nil {
						skipped++
						choices = vlib.NextChoices(pre)
						if choices == nil {
							break
						}
						continue
					}
				}
				n++
				st.Record(schedKey(&c, steps), res.Window || res.Waited, []string{c.Name + "/" + storage}, schedSample(&c, steps))
				if err != nil {
					cc := c
					for _, s := range steps {
						cc.Choices = append(cc.Choices, s.Chosen)
					}
					vlib.SaveFailure("C05", part, &cc, err)
					t.Fatalf("C05 violated in scenario %s on %s, schedule %v: %v", c.Name, storage, cc.Choices, err)
				}
				choices = vlib.NextChoices(steps)
				if choices == nil {
					break
				}
			}
			st.Count("schedules:"+c.Name+"/"+storage, n)
		}
	}
}

func TestC05Two(t *testing.T) {
	st := vlib.StatsFor("C05", "two", "exhaustive: ALL interleavings of every 2-request scenario on both stores; "+ruleC05)
	shard, nshards := vlib.Shard()
	exploreAll(t, st, "two", scenarios(2), shard, nshards, false)
	st.SetExhaustive(true)
}

func TestC05Three(t *testing.T) {
	st := vlib.StatsFor("C05", "three", "exhaustive: ALL interleavings of every 3-request scenario on both stores; "+ruleC05)
	shard, nshards := vlib.Shard()
	exploreAll(t, st, "three", scenarios(3), shard, nshards, true)
	st.SetExhaustive(true)
}

// TestC05Sampled: rapid-drawn schedules of the 3- and 4-request scenarios and of
// generated scenarios.
func TestC05Sampled(t *testing.T) {
	st := vlib.StatsFor("C05", "sampled", "rapid-drawn schedules over the fixed 3/4-request scenarios and generated scenarios (2-4 requests: forks from the same old size, chains, refreshes, reads, 1-2 logs); "+ruleC05)
	fixed := append(scenarios(3), scenarios(4)...)
	caches := map[string]*refCache{}
	rapid.Check(t, func(rt *rapid.T) {
		var c ConcCase
		if rapid.Bool().Draw(rt, "fixed") {
			c = *fixed[rapid.IntRange(0, len(fixed)-1).Draw(rt, "scenario")]
		} else {
			c = ConcCase{Name: "generated", Forks: []vlib.ForkSpec{{Parent: 0, At: uint64(rapid.IntRange(0, 12).Draw(rt, "fork1"))}, {Parent: 0, At: uint64(rapid.IntRange(0, 12).Draw(rt, "fork2"))}}}
			c.NLogs = rapid.IntRange(1, 2).Draw(rt, "nlogs")
			for i := 0; i < c.NLogs; i++ {
				c.Plant = append(c.Plant, int64(rapid.IntRange(-1, 8).Draw(rt, "plant")))
			}
			nreq := rapid.IntRange(2, 4).Draw(rt, "nreq")
			for i := 0; i < nreq; i++ {
				r := ConcReq{Kind: "update", Log: rapid.IntRange(0, c.NLogs-1).Draw(rt, "log")}
				if vlib.Pct(rt, 20, "isread") {
					r.Kind = "read"
				} else {
					p := c.Plant[r.Log]
					if p < 0 {
						p = 0
					}
					r.Branch = rapid.IntRange(0, 2).Draw(rt, "branch")
					switch rapid.IntRange(0, 3).Draw(rt, "oldk") {
					case 0, 1:
						r.Old = uint64(p)
					case 2:
						r.Old = uint64(p) + uint64(rapid.IntRange(1, 4).Draw(rt, "oldd"))
					default:
						r.Old = uint64(rapid.IntRange(0, 12).Draw(rt, "oldabs"))
					}
					r.Size = r.Old + uint64(rapid.IntRange(0, 6).Draw(rt, "grow"))
					if r.Size == 0 {
						r.Size = 1
					}
					r.Empty = vlib.Pct(rt, 10, "emptyproof")
				}
				c.Reqs = append(c.Reqs, r)
			}
		}
		c.Storage = rapid.SampledFrom([]string{"mem", "sql"}).Draw(rt, "storage")
		c.Choices = rapid.SliceOfN(rapid.IntRange(0, 3), 20, 20).Draw(rt, "choices")
		b, _ := json.Marshal([]any{c.Forks, c.NLogs, c.Plant, c.Reqs})
		ck := string(b)
		cache := caches[ck]
		if cache == nil {
			cache = &refCache{m: map[string][]outcome{}}
			caches[ck] = cache
		}
		res, steps, err := runSchedule(&c, c.Choices, cache)
		key := schedKey(&c, steps)
		if c.Name == "generated" {
			key = ck + key
		}
		st.Record(key, res.Window || res.Waited, []string{c.Name + "/" + c.Storage}, schedSample(&c, steps))
		if err != nil {
			vlib.SaveFailure("C05", "sampled", &c, err)
			rt.Fatalf("C05 violated: %v", err)
		}
	})
}

// --- stress under the race detector ---------------------------------------------------

// TestC05Stress: many goroutines, no scheduler; invariants over everything observed.
func TestC05Stress(t *testing.T) {
	st := vlib.StatsFor("C05", "stress", "8-32 goroutines x 20 requests each on one log (growth from what they last read, forks from the same size, refreshes, reads) without the scheduler, both stores, built with -race: all accepted checkpoints form one prefix chain, the final state is the largest accepted one, no goroutine sees the size go down, every value read was accepted; non-trivial = run in which >=2 goroutines had an update accepted")
	rounds := 24
	if vlib.Thorough() {
		rounds = 240
	}
	for round := 0; round < rounds; round++ {
		for _, storage := range []string{"mem", "sql"} {
			c := &ConcCase{Name: "stress", Storage: storage, Forks: []vlib.ForkSpec{{Parent: 0, At: 3}}, NLogs: 1, Plant: []int64{2}}
			ce := newConcEnv(c)
			w, _, closer, err := ce.newWitness(storage)
			if err != nil {
				t.Fatalf("harness: %v", err)
			}
			ng := 8 + (round%4)*8
			type acc struct {
				g      int
				size   uint64
				root   string
				branch int
			}
			var mu sync.Mutex
			var accepted []acc
			var reads []outcome
			var violations []string
			var wg sync.WaitGroup
			for g := 0; g < ng; g++ {
				wg.Add(1)
				go func(g int) {
					defer wg.Done()
					var lastSeen uint64
					for k := 0; k < 20; k++ {
						cur := ce.do(w, ConcReq{Kind: "read", Log: 0})
						if cur.Kind != "read" {
							mu.Lock()
							violations = append(violations, fmt.Sprintf("goroutine %d: read returned %v", g, cur))
							mu.Unlock()
							return
						}
						if cur.Size < lastSeen {
							mu.Lock()
							violations = append(violations, fmt.Sprintf("goroutine %d saw the log's size go down: %d after %d", g, cur.Size, lastSeen))
							mu.Unlock()
						}
						lastSeen = cur.Size
						mu.Lock()
						reads = append(reads, cur)
						mu.Unlock()
						branch := 0
						if (g+k)%5 == 0 {
							branch = 1 // a fork (diverges at leaf 3)
						}
						size := cur.Size + uint64((g+k)%3)
						o := ce.do(w, ConcReq{Kind: "update", Log: 0, Branch: branch, Old: cur.Size, Size: size})
						if o.Kind == "accepted" {
							mu.Lock()
							accepted = append(accepted, acc{g, o.Size, o.Root, branch})
							mu.Unlock()
						}
					}
				}(g)
			}
			wg.Wait()
			fin := ce.do(w, ConcReq{Kind: "read", Log: 0})
			closer()
			sort.Slice(accepted, func(i, j int) bool { return accepted[i].size < accepted[j].size })
			gs := map[int]bool{}
			for i, a := range accepted {
				gs[a.g] = true
				if i > 0 {
					p := accepted[i-1]
					if p.size == a.size && p.root != a.root {
						violations = append(violations, fmt.Sprintf("two roots accepted for size %d", a.size))
					}
					if !vlib.IsPrefix(ce.branches[p.branch], p.size, ce.branches[a.branch], a.size) {
						violations = append(violations, fmt.Sprintf("accepted size %d (branch %d) and size %d (branch %d) are not prefix-related: split view", p.size, p.branch, a.size, a.branch))
					}
				}
			}
			okVals := map[string]bool{}
			plantRoot := ce.branches[0].Root(2)
			okVals[fmt.Sprintf("2/%s", hex.EncodeToString(plantRoot[:]))] = true
			for _, a := range accepted {
				okVals[fmt.Sprintf("%d/%s", a.size, a.root)] = true
			}
			for _, r := range reads {
				if !okVals[fmt.Sprintf("%d/%s", r.Size, r.Root)] {
					violations = append(violations, fmt.Sprintf("a read returned (%d,%s), which was never accepted", r.Size, r.Root[:8]))
					break
				}
			}
			if len(accepted) > 0 {
				top := accepted[len(accepted)-1]
				if fin.Size != top.size || fin.Root != top.root {
					violations = append(violations, fmt.Sprintf("final state %v is not the largest accepted checkpoint (%d,%s): an accepted update was lost", fin, top.size, top.root[:8]))
				}
			}
			st.Record(fmt.Sprintf("round%d/%s", round, storage), len(gs) >= 2, []string{"stress/" + storage}, map[string]any{"round": round, "storage": storage, "goroutines": ng, "accepted": len(accepted), "final_size": fin.Size})
			if len(violations) > 0 {
				vlib.SaveFailure("C05", "stress", c, fmt.Errorf("%s", strings.Join(violations, "; ")))
				t.Fatalf("C05 violated under stress on %s: %s", storage, strings.Join(violations, "; "))
			}
		}
	}
}

func init() {
	r := func(raw json.RawMessage) error {
		var c ConcCase
		if err := json.Unmarshal(raw, &c); err != nil {
			return err
		}
		if c.Name == "stress" {
			return nil // schedule-dependent; the failing history is in the error text
		}
		_, _, err := runSchedule(&c, c.Choices, &refCache{m: map[string][]outcome{}})
		return err
	}
	for _, p := range []string{"two", "three", "sampled", "stress"} {
		replayers["C05/"+p] = r
	}
}
