//go:build verif

package verifh

import (
	"bytes"
	"fmt"
	"strings"
	"testing"

	"github.com/transparency-dev/witness/internal/verifh/vlib"
	"golang.org/x/mod/sumdb/note"
	"pgregory.net/rapid"
)

// ---------------------------------------------------------------------------------
// C02 — only the named log's key and origin

const ruleC02 = "configurations of 1-5 logs (shared keys under different origins) x valid checkpoints, byte/line/signature-block mutations, wrong keys, wrong origins, cross-log replays; oracle: accepted => text was signed by the harness with that log's key+name and starts with that log's origin; non-trivial = case with a mutated submission that still has note shape (reaches signature verification) or a cross-log/cross-origin submission; distinct by case hash"

var profC02 = vlib.Profile{
	Prop: "C02", MinLogs: 1, MaxLogs: 5, MinOps: 3, MaxOps: 24,
	Storages: []string{"mem", "sql"}, MaxJump: 64, OtherLogPct: 50, Decorate: 20, SharedKeys: true, ECDSAPct: 35,
	Weights: map[string]int{"grow": 22, "refresh": 4, "fork": 3, "replay": 8, "garbage": 28, "wrongkey": 14, "wrongorigin": 12, "unknownlog": 5, "decorated": 4},
}

func checkAuthenticity(e *vlib.Env, steps []*vlib.Step) (bool, []string, error) {
	nontrivial := false
	var classes []string
	for _, st := range steps {
		r := st.Req
		cls := "plain"
		_, sigs, shaped := vlib.SplitNote(r.Cp)
		switch {
		case r.Mutated && shaped && len(sigs) > 0:
			cls = "mutated-note-shaped"
			nontrivial = true
		case r.Mutated:
			cls = "mutated-unshaped"
		case st.Op.Cp.Origin != -1 || (st.Op.Cp.Signer != -1 && st.Op.Cp.Signer != st.Op.Log):
			cls = "cross-log"
			nontrivial = true
		case !r.Authentic:
			cls = "inauthentic"
		}
		classes = append(classes, cls+":"+st.Verdict)
		if r.LogIdx < 0 {
			if st.Verdict != vlib.VUnknownLog || st.Out != nil {
				return nontrivial, classes, fmt.Errorf("step %d: unknown log ID answered %q (out %d bytes), want unknown-log refusal", st.Index, st.Verdict, len(st.Out))
			}
			if !st.Pre.Equal(st.Post) {
				return nontrivial, classes, fmt.Errorf("step %d: unknown log ID changed state", st.Index)
			}
			continue
		}
		if st.Verdict == vlib.VAccepted {
			h := e.ScanCheckpoint(st.Out)
			if !h.ParseOK {
				return nontrivial, classes, fmt.Errorf("step %d: accepted but returned bytes do not scan", st.Index)
			}
			if !e.SignedByLog(r.LogIdx, h.Text) {
				return nontrivial, classes, fmt.Errorf("step %d (%s): ACCEPTED a checkpoint whose text was never signed with the key configured for log %d (%q): %q", st.Index, st.Op.Note, r.LogIdx, e.Case.Logs[r.LogIdx].Origin, h.Text)
			}
			if !strings.HasPrefix(h.Text, e.Case.Logs[r.LogIdx].Origin+"\n") {
				return nontrivial, classes, fmt.Errorf("step %d (%s): ACCEPTED a checkpoint for log %d (%q) whose first line is another origin: %q", st.Index, st.Op.Note, r.LogIdx, e.Case.Logs[r.LogIdx].Origin, h.Text)
			}
			sub, _, ok := vlib.SplitNote(r.Cp)
			if !ok || sub != h.Text {
				return nontrivial, classes, fmt.Errorf("step %d: accepted text is not the submitted text", st.Index)
			}
			stored := e.ScanCheckpoint(st.Post.Cps[r.LogID])
			if stored.Text != h.Text {
				return nontrivial, classes, fmt.Errorf("step %d: stored text differs from accepted text", st.Index)
			}
			continue
		}
		// refused
		if !r.Mutated && !r.Authentic && st.Verdict != vlib.VNoSig {
			return nontrivial, classes, fmt.Errorf("step %d (%s): checkpoint not signed by log %d's key/origin answered %q, want no-valid-signature", st.Index, st.Op.Note, r.LogIdx, st.Verdict)
		}
		if !st.Pre.Equal(st.Post) {
			return nontrivial, classes, fmt.Errorf("step %d: refused (%s) but state changed", st.Index, st.Verdict)
		}
	}
	// no log ever holds a text of another origin
	if len(steps) > 0 {
		last := steps[len(steps)-1].Post
		for i, id := range e.LogIDs {
			if b, ok := last.Cps[id]; ok {
				h := e.ScanCheckpoint(b)
				if !strings.HasPrefix(h.Text, e.Case.Logs[i].Origin+"\n") || !e.SignedByLog(i, h.Text) {
					return nontrivial, classes, fmt.Errorf("final state: log %d holds a text that is not its own: %q", i, h.Text)
				}
			}
		}
	}
	return nontrivial, classes, nil
}

func runC02(c *vlib.HistCase) (bool, []string, error) {
	e := vlib.NewEnv(c)
	t, closer, err := e.NewPlainTarget()
	if err != nil {
		return false, nil, fmt.Errorf("harness: %v", err)
	}
	defer closer()
	steps, err := e.Exec(t, vlib.RunOpts{})
	if err != nil {
		return false, nil, err
	}
	return checkAuthenticity(e, steps)
}

func TestC02(t *testing.T) {
	st := vlib.StatsFor("C02", "hist", ruleC02)
	rapid.Check(t, func(rt *rapid.T) {
		c := vlib.GenHist(rt, profC02)
		nt, classes, err := runC02(c)
		st.Record(c.Hash(), nt, classes, sampleOf(c))
		if err != nil {
			vlib.SaveFailure("C02", "hist", c, err)
			rt.Fatalf("C02 violated: %v", err)
		}
	})
}

// ---------------------------------------------------------------------------------
// C04 — handed-out checkpoints: log's text, validly cosigned, fresh

const ruleC04 = "accepted updates (first use/growth/refresh) x note shapes (extension lines, extra known/unknown/duplicate signature lines, stale or forged witness lines) x witness key sets of 1-3 keys x storage, incl. refreshes of a state planted with a day-old cosignature; non-trivial = case with an accepted growth/refresh, an accepted decorated note, or a multi-key witness; distinct by case hash"

var wkeySets = [][]vlib.WKSpec{
	vlib.ProdWKeys,
	vlib.LegacyWKeys,
	{{Label: "wit", Name: "witness.example/w", Cosig: true}},
	{{Label: "wit", Name: "witness.example/w", Cosig: true}, {Label: "wit2", Name: "witness2.example/w", Cosig: true}, {Label: "wit3", Name: "w3", Cosig: false}},
	{{Label: "wit", Name: "same-name", Cosig: true}, {Label: "wit2", Name: "same-name", Cosig: true}},
}

var profC04 = vlib.Profile{
	Prop: "C04", MinLogs: 1, MaxLogs: 2, MinOps: 2, MaxOps: 16,
	Storages: []string{"mem", "sql"}, MaxJump: 300, OtherLogPct: 15, Decorate: 45, SharedKeys: true, WKeySets: wkeySets, PlantPct: 60, MaxJunkSigs: 8, NonCanonPct: 20, ECDSAPct: 25, FaultPct: 8,
	Weights: map[string]int{"grow": 40, "refresh": 30, "decorated": 14, "replay": 12, "badproof": 4, "wrongold": 4, "garbage": 3, "wrongkey": 2, "zero": 3},
}

func checkHandouts(e *vlib.Env, steps []*vlib.Step) (bool, []string, error) {
	nontrivial := len(e.WKeys) > 1
	var classes []string
	for _, st := range steps {
		if st.Verdict != vlib.VAccepted {
			continue
		}
		r := st.Req
		kind := "first-use"
		if st.PreHeld.Present {
			kind = "growth"
			if st.PreHeld.ParseOK && st.PreHeld.Size == r.CpSize {
				kind = "refresh"
			}
			nontrivial = true
		}
		subText, subSigs, ok := vlib.SplitNote(r.Cp)
		if !ok {
			return nontrivial, classes, fmt.Errorf("step %d: accepted bytes that do not have note shape", st.Index)
		}
		if len(subSigs) > 1 {
			nontrivial = true
			kind += "+decorated"
		}
		classes = append(classes, fmt.Sprintf("%s/keys=%d", kind, len(e.WKeys)))
		text, sigs, ok := vlib.SplitNote(st.Out)
		if !ok {
			return nontrivial, classes, fmt.Errorf("step %d: returned bytes do not have note shape: %q", st.Index, st.Out)
		}
		if text != subText {
			return nontrivial, classes, fmt.Errorf("step %d (%s): returned text differs from the text the log signed:\n got %q\nwant %q", st.Index, kind, text, subText)
		}
		// log line present and valid
		lk := e.LogKeys[r.LogIdx]
		nlog := 0
		for _, sg := range sigs {
			if sg.Name == lk.Name && sg.Hash == lk.Hash() {
				if !lk.VerifyPlain(text, sg) {
					return nontrivial, classes, fmt.Errorf("step %d: log signature line in the result does not verify", st.Index)
				}
				nlog++
			}
		}
		if nlog < 1 {
			return nontrivial, classes, fmt.Errorf("step %d (%s): result carries no signature by the log", st.Index, kind)
		}
		// exactly one valid line per configured witness key
		lo, hi := uint64(st.Start.Unix()), uint64(st.End.Unix())
		for wi, wk := range e.WKeys {
			n := 0
			for _, sg := range sigs {
				if sg.Name != wk.K.Name || sg.Hash != wk.SigHash() {
					continue
				}
				n++
				if wk.Kind == vlib.WKCosig {
					ts, ok := wk.K.VerifyCosig(text, sg)
					if !ok {
						return nontrivial, classes, fmt.Errorf("step %d (%s): cosignature/v1 line of witness key %d does not verify over the returned text", st.Index, kind, wi)
					}
					if ts < lo || ts > hi {
						return nontrivial, classes, fmt.Errorf("step %d (%s): cosignature timestamp %d outside the update call's window [%d,%d] (stale cosignature handed out)", st.Index, kind, ts, lo, hi)
					}
				} else if !wk.K.VerifyPlain(text, sg) {
					return nontrivial, classes, fmt.Errorf("step %d (%s): signature line of witness key %d does not verify over the returned text", st.Index, kind, wi)
				}
			}
			if n != 1 {
				return nontrivial, classes, fmt.Errorf("step %d (%s): result carries %d signature lines for witness key %d (%s), want exactly 1", st.Index, kind, n, wi, wk.K.Name)
			}
		}
		// library view: opens under log + witness verifiers
		vs := []note.Verifier{lk.Verifier()}
		for _, wk := range e.WKeys {
			vs = append(vs, wk.Verifier())
		}
		if _, err := note.Open(st.Out, note.VerifierList(vs...)); err != nil {
			if len(sigs) <= 100 { // beyond 100 lines note.Open refuses by design; that wedge is C08's concern
				return nontrivial, classes, fmt.Errorf("step %d (%s): result does not open under log+witness verifiers: %v", st.Index, kind, err)
			}
		}
		// read-after-write
		if !bytes.Equal(st.Post.Cps[r.LogID], st.Out) {
			return nontrivial, classes, fmt.Errorf("step %d (%s): a read directly after the accepted update does not return the bytes the update returned", st.Index, kind)
		}
	}
	return nontrivial, classes, nil
}

func runC04(c *vlib.HistCase) (bool, []string, error) {
	e := vlib.NewEnv(c)
	t, closer, err := e.NewInstrumentedWitness() // storage faults: "accepted" must still mean "stored"
	if err != nil {
		return false, nil, fmt.Errorf("harness: %v", err)
	}
	defer closer()
	steps, err := e.Exec(t, vlib.RunOpts{})
	if err != nil {
		return false, nil, err
	}
	return checkHandouts(e, steps)
}

func TestC04(t *testing.T) {
	st := vlib.StatsFor("C04", "hist", ruleC04)
	rapid.Check(t, func(rt *rapid.T) {
		c := vlib.GenHist(rt, profC04)
		nt, classes, err := runC04(c)
		st.Record(c.Hash(), nt, classes, sampleOf(c))
		if err != nil {
			vlib.SaveFailure("C04", "hist", c, err)
			rt.Fatalf("C04 violated: %v", err)
		}
	})
}

func init() {
	replayers["C02/hist"] = histReplayer(func(c *vlib.HistCase) error { _, _, err := runC02(c); return err })
	replayers["C04/hist"] = histReplayer(func(c *vlib.HistCase) error { _, _, err := runC04(c); return err })
}
