//go:build verif

package verifh

import (
	"bytes"
	"context"
	"encoding/json"
	"fmt"
	"net/http/httptest"
	"sync"
	"testing"
	"time"

	"github.com/gorilla/mux"
	"github.com/transparency-dev/witness/api"
	ihttp "github.com/transparency-dev/witness/internal/http"
	"github.com/transparency-dev/witness/internal/persistence"
	"github.com/transparency-dev/witness/internal/verifh/vlib"
	"github.com/transparency-dev/witness/internal/witness"
)

// holdPersist lets exactly one read be held AFTER it has fetched its bytes from the store
// and before it hands them to its caller (a slow reader, not a slow store: nothing is locked
// while it waits).
type holdPersist struct {
	persistence.LogStatePersistence
	mu      sync.Mutex
	armed   bool
	arrived chan struct{}
	release chan struct{}
}

type holdReader struct {
	persistence.LogStateReadOps
	p *holdPersist
}

func (p *holdPersist) ReadOps(id string) (persistence.LogStateReadOps, error) {
	r, err := p.LogStatePersistence.ReadOps(id)
	if err != nil {
		return nil, err
	}
	return &holdReader{LogStateReadOps: r, p: p}, nil
}

func (r *holdReader) GetLatest() ([]byte, error) {
	b, err := r.LogStateReadOps.GetLatest()
	r.p.mu.Lock()
	hold := r.p.armed
	r.p.armed = false
	r.p.mu.Unlock()
	if hold {
		close(r.p.arrived)
		<-r.p.release
	}
	return b, err
}

// TestC16Overlap: a GET that starts after an accepted update has returned is answered with
// that update's bytes - also while an older GET of the same log is still on its way out.
// Schedule (owned by the harness, no timing in the verdict): the log is at size a; GET 1 has
// read its bytes and is held; an update to size b is accepted; GET 2 is issued and must
// return the bytes of b without waiting for GET 1; GET 1 is released and returns a or b.
func TestC16Overlap(t *testing.T) {
	st := vlib.StatsFor("C16", "overlap", "exhaustive over {mem, sql} x 6 (a, b) size pairs incl. a same-size refresh: GET 1 held after its storage read, an accepted update, GET 2 issued after the update returned (must carry the update's bytes and must not wait for GET 1), GET 1 released; through the registered mux handlers; non-trivial = any")
	for _, storage := range []string{"mem", "sql"} {
		for _, ab := range [][2]uint64{{1, 2}, {3, 3}, {5, 8}, {8, 9}, {255, 257}, {2, 300}} {
			name := fmt.Sprintf("%s/%d->%d", storage, ab[0], ab[1])
			c := &OverlapCase{Storage: storage, From: ab[0], To: ab[1]}
			err := runC16Overlap(c.Storage, c.From, c.To)
			st.Record(name, true, []string{"overlap:" + storage}, vlib.SampleOf(c))
			if err != nil {
				vlib.SaveFailure("C16", "overlap", c, err)
				t.Fatalf("C16 violated (%s): %v", name, err)
			}
		}
	}
	st.SetExhaustive(true)
}

// OverlapCase is one schedule of part overlap.
type OverlapCase struct {
	Storage string `json:"storage"`
	From    uint64 `json:"from"`
	To      uint64 `json:"to"`
}

func init() {
	replayers["C16/overlap"] = func(raw json.RawMessage) error {
		var c OverlapCase
		if err := json.Unmarshal(raw, &c); err != nil {
			return err
		}
		return runC16Overlap(c.Storage, c.From, c.To)
	}
}

func runC16Overlap(storage string, a, b uint64) error {
	hc := &vlib.HistCase{Prop: "C16", Storage: storage, Seed: "A",
		Logs: []vlib.LogSpec{{Origin: "example.com/overlap", KeyLabel: "log0", KeyName: "logkey"}}, WKeys: vlib.ProdWKeys}
	e := vlib.NewEnv(hc)
	inner, closer := vlib.NewPersistence(storage)
	defer closer()
	hp := &holdPersist{LogStatePersistence: inner, arrived: make(chan struct{}), release: make(chan struct{})}
	w, err := witness.New(witness.Opts{Persistence: hp, Signers: e.Signers(), KnownLogs: e.KnownLogs()})
	if err != nil {
		return fmt.Errorf("harness: %v", err)
	}
	id, key, br := e.LogIDs[0], e.LogKeys[0], e.Branches[0]
	cp := func(n uint64, ext []string) []byte {
		root := br.Root(n)
		text := vlib.CheckpointText("example.com/overlap", n, root[:], ext)
		return vlib.Note(text, key.SigLine(text))
	}
	first, err := w.Update(context.Background(), id, 0, cp(a, nil), nil)
	if err != nil {
		return fmt.Errorf("harness: first update: %v", err)
	}
	r := mux.NewRouter()
	ihttp.NewServer(w).RegisterHandlers(r)
	get := func() (int, []byte) {
		rec := httptest.NewRecorder()
		r.ServeHTTP(rec, httptest.NewRequest("GET", "http://witness.test"+fmt.Sprintf(api.HTTPGetCheckpoint, id), nil))
		return rec.Code, rec.Body.Bytes()
	}
	hp.mu.Lock()
	hp.armed = true
	hp.mu.Unlock()
	type res struct {
		code int
		body []byte
	}
	g1 := make(chan res, 1)
	go func() { c, bd := get(); g1 <- res{c, bd} }()
	select {
	case <-hp.arrived:
	case <-time.After(30 * time.Second):
		return fmt.Errorf("%s GET 1 never reached the storage read", vlib.InfraMarker)
	}
	var proof [][]byte
	ext := []string(nil)
	if b > a {
		proof = br.Consistency(a, b)
	} else {
		ext = []string{"refreshed"} // same tree, other text: the accepted bytes differ from the first
	}
	second, err := w.Update(context.Background(), id, a, cp(b, ext), proof)
	if err != nil {
		close(hp.release)
		return fmt.Errorf("harness: the update %d -> %d was not accepted: %v", a, b, err)
	}
	g2 := make(chan res, 1)
	go func() { c, bd := get(); g2 <- res{c, bd} }()
	var r2 res
	waited := false
	select {
	case r2 = <-g2:
	case <-time.After(3 * time.Second):
		// GET 2 seems to wait for GET 1 (that alone is reported below only if its answer is
		// wrong as well: slowness is not a verdict)
		waited = true
	}
	close(hp.release)
	r1 := <-g1
	if waited {
		select {
		case r2 = <-g2:
		case <-time.After(30 * time.Second):
			return fmt.Errorf("GET 2 (issued after the accepted update %d -> %d had returned) did not complete even after GET 1 was released", a, b)
		}
	}
	if r2.code != 200 || !bytes.Equal(r2.body, second) {
		return fmt.Errorf("GET issued after the accepted update %d -> %d had returned (while an older GET of the same log was still on its way out; it waited for that GET: %v) answered status %d with %q; the update returned %q", a, b, waited, r2.code, r2.body, second)
	}
	if r1.code != 200 || !(bytes.Equal(r1.body, first) || bytes.Equal(r1.body, second)) {
		return fmt.Errorf("the older GET answered status %d with %q: neither the checkpoint before (%q) nor after (%q) the overlapping update", r1.code, r1.body, first, second)
	}
	return nil
}
