//go:build verif

package verifh

import (
	"bytes"
	"fmt"
	"testing"

	"github.com/transparency-dev/merkle/proof"
	"github.com/transparency-dev/merkle/rfc6962"
	"github.com/transparency-dev/witness/internal/verifh/vlib"
	"golang.org/x/mod/sumdb/tlog"
	"pgregory.net/rapid"
)

// TestSelfRef cross-checks the harness's own reference components against two
// independent implementations, so that an oracle bug shows up here and not as an alarm:
//   - roots and consistency proofs of the reference tree vs x/mod tlog (TreeHash via stored
//     hashes, ProveTree, CheckTree),
//   - the strict RFC 9162 verifier vs transparency-dev/merkle's VerifyConsistency on
//     correct and on damaged proofs (32-byte nodes).
func TestSelfRef(t *testing.T) {
	st := vlib.StatsFor("C09", "selfref", "self-check of the oracle components: reference tree roots/proofs vs x/mod tlog, strict verifier vs transparency-dev/merkle on correct and damaged proofs; non-trivial = a damaged proof; distinct by (sizes, damage)")
	br := vlib.RootBranch("SELF", 0)
	hr := branchHashReader{br}
	rapid.Check(t, func(rt *rapid.T) {
		n := uint64(rapid.IntRange(1, 3000).Draw(rt, "n"))
		m := uint64(rapid.IntRange(1, int(n)).Draw(rt, "m"))
		rootN, rootM := br.Root(n), br.Root(m)
		th, err := tlog.TreeHash(int64(n), hr)
		if err != nil || th != tlog.Hash(rootN) {
			rt.Fatalf("HARNESS: reference root of size %d differs from tlog.TreeHash (%v)", n, err)
		}
		p := br.Consistency(m, n)
		if m < n {
			tp, err := tlog.ProveTree(int64(n), int64(m), hr)
			if err != nil || len(tp) != len(p) {
				rt.Fatalf("HARNESS: reference proof %d->%d has %d hashes, tlog.ProveTree %d (%v)", m, n, len(p), len(tp), err)
			}
			for i := range tp {
				if !bytes.Equal(tp[i][:], p[i]) {
					rt.Fatalf("HARNESS: reference proof %d->%d differs from tlog.ProveTree at %d", m, n, i)
				}
			}
			if err := tlog.CheckTree(tp, int64(n), tlog.Hash(rootN), int64(m), tlog.Hash(rootM)); err != nil {
				rt.Fatalf("HARNESS: tlog.CheckTree rejects the reference proof %d->%d: %v", m, n, err)
			}
		}
		// damage
		q := make([][]byte, len(p))
		for i := range p {
			q[i] = append([]byte{}, p[i]...)
		}
		damage := rapid.SampledFrom([]string{"none", "flip", "drop", "extra", "swap", "wrongroot1", "wrongroot2", "sizes"}).Draw(rt, "damage")
		r1, r2 := append([]byte{}, rootM[:]...), append([]byte{}, rootN[:]...)
		mm, nn := m, n
		switch damage {
		case "flip":
			if len(q) > 0 {
				i := rapid.IntRange(0, len(q)-1).Draw(rt, "i")
				q[i][rapid.IntRange(0, 31).Draw(rt, "byte")] ^= 1 << uint(rapid.IntRange(0, 7).Draw(rt, "bit"))
			}
		case "drop":
			if len(q) > 0 {
				i := rapid.IntRange(0, len(q)-1).Draw(rt, "i")
				q = append(q[:i], q[i+1:]...)
			}
		case "extra":
			q = append(q, bytes.Repeat([]byte{9}, 32))
		case "swap":
			if len(q) > 1 {
				q[0], q[1] = q[1], q[0]
			}
		case "wrongroot1":
			r1[0] ^= 1
		case "wrongroot2":
			r2[31] ^= 0x80
		case "sizes":
			mm = uint64(rapid.IntRange(1, int(n)).Draw(rt, "m2"))
		}
		mine := vlib.VerifyConsistencyStrict(mm, nn, r1, r2, q)
		theirs := proof.VerifyConsistency(rfc6962.DefaultHasher, mm, nn, q, r1, r2) == nil
		st.Record(fmt.Sprintf("%d-%d-%s-%v", mm, nn, damage, len(q)), damage != "none", []string{"damage:" + damage, fmt.Sprintf("verdict:%v", mine)}, map[string]any{"m": mm, "n": nn, "damage": damage})
		if mine != theirs {
			rt.Fatalf("HARNESS: strict verifier says %v, transparency-dev/merkle says %v for %d->%d with damage %q (%d hashes)", mine, theirs, mm, nn, damage, len(q))
		}
		if damage == "none" && !mine {
			rt.Fatalf("HARNESS: strict verifier rejects the correct proof %d->%d", m, n)
		}
	})
}
