//go:build verif

package verifh

import (
	"bytes"
	"context"
	"encoding/json"
	"errors"
	"fmt"
	"io"
	"net/http"
	"net/url"
	"os"
	"regexp"
	"strconv"
	"sync"
	"testing"
	"time"

	"github.com/transparency-dev/witness/internal/config"
	"github.com/transparency-dev/witness/internal/distribute/rest"
	"github.com/transparency-dev/witness/internal/verifh/vlib"
	"pgregory.net/rapid"
)

// DistLog is one log of a distribution case.
type DistLog struct {
	Origin  string `json:"origin"`
	KeyIdx  int    `json:"key"`     // key material index (logs may share a key)
	Witness string `json:"witness"` // what the witness answers for this log
	Distrib string `json:"distrib"` // what the distributor answers to the request for this log
	Size    int    `json:"size"`
	// SameNameAsWitness: the log's key carries the witness's key NAME (other key material)
	SameNameAsWitness bool `json:"same_name_as_witness,omitempty"`
}

// DistCase is one DistributeOnce run.
type DistCase struct {
	WitnessName string    `json:"witness_name"`
	Logs        []DistLog `json:"logs"`
	// Rounds > 1: DistributeOnce is called that many times on the same Distributor (as
	// the periodic distributor does); every round must behave like the first
	Rounds int `json:"rounds,omitempty"`
}

var witnessAnswers = []string{"valid", "valid", "valid", "valid-dupwit", "valid-extra-unknown", "missing", "error", "wronglogkey", "nowitsig", "badwitsig", "otherwitness", "nologsig", "corrupted", "otherlog", "otherlog-configured", "otherlog-configured", "wrongorigin-samekey", "empty", "legacywitsig", "error-deadline"}
var distribAnswers = []string{"200", "200", "200", "400", "404", "500", "201", "204", "connerr", "301-200", "302-200", "303-200", "307-200", "308-200", "307-500", "200-bigbody", "200-slow", "200-slow", "timeout", "timeout"}

type distStub struct {
	mu   sync.Mutex
	reqs []distReq
	plan map[string]string // logID -> distributor answer
}

type distReq struct {
	Method string
	Path   string // escaped
	Body   []byte
	Hop    int
}

var distPathRE = regexp.MustCompile(`^/distributor/v0/logs/([^/]+)/byWitness/([^/]+)/checkpoint$`)

func (d *distStub) RoundTrip(r *http.Request) (*http.Response, error) {
	if err := r.Context().Err(); err != nil {
		return nil, err // like a real transport: a request whose context is over is not sent
	}
	var body []byte
	if r.Body != nil {
		body, _ = io.ReadAll(r.Body)
		r.Body.Close()
	}
	hop := 0
	if r.URL.Query().Get("hop") == "1" {
		hop = 1
	}
	d.mu.Lock()
	d.reqs = append(d.reqs, distReq{Method: r.Method, Path: r.URL.EscapedPath(), Body: body, Hop: hop})
	d.mu.Unlock()
	mk := func(code int, b string, hdr map[string]string) *http.Response {
		h := http.Header{}
		for k, v := range hdr {
			h.Set(k, v)
		}
		return &http.Response{StatusCode: code, Status: strconv.Itoa(code) + " " + http.StatusText(code), Header: h, Body: io.NopCloser(bytes.NewReader([]byte(b))), Request: r, ProtoMajor: 1, ProtoMinor: 1}
	}
	m := distPathRE.FindStringSubmatch(r.URL.EscapedPath())
	answer := "404"
	if m != nil {
		if a, ok := d.plan[m[1]]; ok {
			answer = a
		}
	}
	if hop == 1 {
		// second hop of a redirect
		switch r.URL.Query().Get("ans") {
		case "307-500":
			return mk(500, "boom", nil), nil
		default:
			return mk(200, "ok", nil), nil
		}
	}
	switch answer {
	case "200-slow":
		// a distributor that takes a moment; like a real transport it gives up when the
		// request's context is cancelled
		select {
		case <-time.After(40 * time.Millisecond):
			return mk(200, "ok", nil), nil
		case <-r.Context().Done():
			return nil, r.Context().Err()
		}
	case "200":
		return mk(200, "ok", nil), nil
	case "200-bigbody":
		return mk(200, string(bytes.Repeat([]byte("x"), 1<<16)), nil), nil
	case "400", "404", "500", "201", "204":
		c, _ := strconv.Atoi(answer)
		return mk(c, "nope", nil), nil
	case "connerr":
		return nil, errors.New("stub: connection refused")
	case "timeout":
		// what net/http's transport reports for ResponseHeaderTimeout / Client.Timeout: an
		// error that matches context.DeadlineExceeded although the caller's context is live
		return nil, stubTimeout{}
	case "301-200", "302-200", "303-200", "307-200", "308-200", "307-500":
		c, _ := strconv.Atoi(answer[:3])
		loc := *r.URL
		loc.RawQuery = "hop=1&ans=" + answer
		return mk(c, "", map[string]string{"Location": loc.String()}), nil
	}
	return mk(404, "unknown", nil), nil
}

type stubTimeout struct{}

func (stubTimeout) Error() string     { return "stub: timeout awaiting response headers" }
func (stubTimeout) Timeout() bool     { return true }
func (stubTimeout) Temporary() bool   { return true }
func (stubTimeout) Is(err error) bool { return err == context.DeadlineExceeded }

type distWitness struct {
	answers map[string]func() ([]byte, error)
	asked   []string
}

func (w *distWitness) GetLatestCheckpoint(ctx context.Context, logID string) ([]byte, error) {
	w.asked = append(w.asked, logID)
	if f, ok := w.answers[logID]; ok {
		return f()
	}
	return nil, os.ErrNotExist
}

func runDist(c *DistCase) (bool, []string, error) {
	wk := vlib.NewKey(c.WitnessName, "wit")
	wkOther := vlib.NewKey(c.WitnessName, "wit-other")
	witV := vlib.WitnessKey{K: wk, Kind: vlib.WKCosig}.Verifier()
	main := vlib.RootBranch("A", 0)
	var logs []config.Log
	dw := &distWitness{answers: map[string]func() ([]byte, error){}}
	ds := &distStub{plan: map[string]string{}}
	var exps []distExpect
	var classes []string
	for i, l := range c.Logs {
		key := vlib.NewKey(fmt.Sprintf("logkey%d", l.KeyIdx), fmt.Sprintf("dlog%d", l.KeyIdx))
		if l.SameNameAsWitness {
			key = vlib.NewKey(c.WitnessName, fmt.Sprintf("dlog-samename%d", l.KeyIdx))
		}
		lc, err := config.NewLog(l.Origin, key.VKey(), "http://log.example/")
		if err != nil {
			return false, nil, fmt.Errorf("harness: %v", err)
		}
		logs = append(logs, lc)
		root := main.Root(uint64(l.Size))
		text := vlib.CheckpointText(l.Origin, uint64(l.Size), root[:], nil)
		logLine := key.SigLine(text)
		witLine := wk.CosigLine(text, 1700000000+uint64(i))
		var b []byte
		var werr error
		valid := false
		switch l.Witness {
		case "valid":
			b, valid = vlib.Note(text, logLine, witLine), true
		case "valid-dupwit":
			b, valid = vlib.Note(text, logLine, witLine, witLine), true
		case "valid-extra-unknown":
			b, valid = vlib.Note(text, logLine, vlib.NewKey("junk", "junk").SigLine(text), witLine), true
		case "missing":
			werr = os.ErrNotExist
		case "error":
			werr = errors.New("stub witness: storage unavailable")
		case "error-deadline":
			// the witness's own storage timed out; the caller's context is still live
			werr = fmt.Errorf("stub witness: storage: %w", context.DeadlineExceeded)
		case "wronglogkey":
			b = vlib.Note(text, vlib.NewKey(key.Name, "stranger").SigLine(text), witLine)
		case "nowitsig":
			b = vlib.Note(text, logLine)
		case "badwitsig":
			b = vlib.Note(text, logLine, vlib.RawSigLine(wk.Name, wk.CosigHash(), make([]byte, 72)))
		case "otherwitness":
			b = vlib.Note(text, logLine, wkOther.CosigLine(text, 1700000000))
		case "legacywitsig":
			b = vlib.Note(text, logLine, wk.SigLine(text))
		case "nologsig":
			b = vlib.Note(text, witLine)
		case "corrupted":
			t2 := vlib.CheckpointText(l.Origin, uint64(l.Size)+1, root[:], nil)
			b = vlib.Note(t2, logLine, witLine)
		case "otherlog-configured":
			// the valid, cosigned checkpoint of ANOTHER configured log (the previous one in the list)
			if i == 0 {
				b = vlib.Note(text, logLine)
			} else {
				pl := c.Logs[i-1]
				pk := vlib.NewKey(fmt.Sprintf("logkey%d", pl.KeyIdx), fmt.Sprintf("dlog%d", pl.KeyIdx))
				proot := main.Root(uint64(pl.Size))
				pt := vlib.CheckpointText(pl.Origin, uint64(pl.Size), proot[:], nil)
				b = vlib.Note(pt, pk.SigLine(pt), wk.CosigLine(pt, 1700000000+uint64(i-1)))
			}
		case "otherlog":
			t2 := vlib.CheckpointText(l.Origin+"/other", uint64(l.Size), root[:], nil)
			k2 := vlib.NewKey("otherlogkey", "otherlog")
			b = vlib.Note(t2, k2.SigLine(t2), wk.CosigLine(t2, 1700000000))
		case "wrongorigin-samekey":
			t2 := vlib.CheckpointText(l.Origin+"2", uint64(l.Size), root[:], nil)
			b = vlib.Note(t2, key.SigLine(t2), wk.CosigLine(t2, 1700000000))
		case "empty":
			b = []byte{}
		}
		bb, ee := b, werr
		dw.answers[lc.ID] = func() ([]byte, error) { return bb, ee }
		ds.plan[lc.ID] = l.Distrib
		ok := valid && (l.Distrib == "200" || l.Distrib == "200-slow" || l.Distrib == "200-bigbody" || l.Distrib == "307-200" || l.Distrib == "308-200")
		exps = append(exps, distExpect{id: lc.ID, valid: valid, bytes: b, ok: ok})
		classes = append(classes, "wit:"+l.Witness, "dist:"+l.Distrib)
	}
	d, err := rest.NewDistributor("http://distributor.example", &http.Client{Transport: ds}, logs, witV, dw)
	if err != nil {
		return false, classes, fmt.Errorf("harness: NewDistributor: %v", err)
	}
	rounds := c.Rounds
	if rounds < 1 {
		rounds = 1
	}
	var nontrivialAny bool
	for round := 0; round < rounds; round++ {
		ds.mu.Lock()
		ds.reqs = nil
		ds.mu.Unlock()
		derr := d.DistributeOnce(context.Background())
		nt, err := checkDistRound(c, ds, exps, derr)
		nontrivialAny = nontrivialAny || nt
		if err != nil {
			if rounds > 1 {
				err = fmt.Errorf("round %d of %d on one Distributor: %w", round+1, rounds, err)
			}
			return nontrivialAny || rounds > 1, classes, err
		}
	}
	if rounds > 1 {
		classes = append(classes, fmt.Sprintf("rounds:%d", rounds))
	}
	return nontrivialAny, classes, nil
}

type distExpect struct {
	id    string
	valid bool
	bytes []byte
	ok    bool // final outcome for this log is success
}

// checkDistRound applies the C15 oracle to one DistributeOnce call.
func checkDistRound(c *DistCase, ds *distStub, exps []distExpect, derr error) (bool, error) {
	// non-trivial: >=2 logs with a failing class before a valid one
	nontrivial := false
	sawFail := false
	for _, e := range exps {
		if !e.ok {
			sawFail = true
		} else if sawFail {
			nontrivial = true
		}
	}
	// first-hop requests
	byID := map[string][]distReq{}
	ds.mu.Lock()
	reqs := append([]distReq{}, ds.reqs...)
	ds.mu.Unlock()
	for _, r := range reqs {
		if r.Hop != 0 {
			continue
		}
		m := distPathRE.FindStringSubmatch(r.Path)
		if m == nil {
			return nontrivial, fmt.Errorf("request to unexpected path %q", r.Path)
		}
		name, uerr := url.PathUnescape(m[2])
		if uerr != nil || name != c.WitnessName {
			return nontrivial, fmt.Errorf("request path %q does not name the witness key %q", r.Path, c.WitnessName)
		}
		byID[m[1]] = append(byID[m[1]], r)
	}
	known := map[string]bool{}
	failed := 0
	for i, e := range exps {
		known[e.id] = true
		rs := byID[e.id]
		if !e.valid {
			if len(rs) != 0 {
				return nontrivial, fmt.Errorf("log %d (witness answer %q): %d requests sent to the distributor, want none", i, c.Logs[i].Witness, len(rs))
			}
		} else {
			if len(rs) != 1 {
				return nontrivial, fmt.Errorf("log %d (valid checkpoint, distributor %q; earlier logs may have failed): %d requests sent to the distributor, want exactly 1", i, c.Logs[i].Distrib, len(rs))
			}
			if rs[0].Method != http.MethodPut {
				return nontrivial, fmt.Errorf("log %d: method %s, want PUT", i, rs[0].Method)
			}
			if !bytes.Equal(rs[0].Body, e.bytes) {
				return nontrivial, fmt.Errorf("log %d: distributor received bytes that differ from what the witness reported:\n got %q\nwant %q", i, rs[0].Body, e.bytes)
			}
		}
		if !e.ok {
			failed++
		}
	}
	for id := range byID {
		if !known[id] {
			return nontrivial, fmt.Errorf("request for an ID that is not configured: %s", id)
		}
	}
	if failed == 0 {
		if derr != nil {
			return nontrivial, fmt.Errorf("every log distributed fine but DistributeOnce failed: %v", derr)
		}
	} else {
		if derr == nil {
			return nontrivial, fmt.Errorf("%d of %d logs failed but DistributeOnce reported success", failed, len(exps))
		}
		m := regexp.MustCompile(`(\d+) out of (\d+)`).FindStringSubmatch(derr.Error())
		if m != nil {
			if m[1] != strconv.Itoa(failed) || m[2] != strconv.Itoa(len(exps)) {
				return nontrivial, fmt.Errorf("DistributeOnce reports %s of %s failed logs, want %d of %d", m[1], m[2], failed, len(exps))
			}
		}
	}
	return nontrivial, nil
}

const ruleC15 = "1-6 logs x witness answer class (18, incl. a storage timeout) x distributor answer class (17, incl. redirects that rewrite or preserve the method and a transport timeout while the caller's context is live); 30% of the cases call DistributeOnce 2-3 times on the same Distributor; oracle on the stub distributor's first-hop request log and DistributeOnce's error, per call; non-trivial = >=2 logs with a failing class before a succeeding one; distinct by case hash"

func distHash(c *DistCase) string {
	b, _ := json.Marshal(c)
	return fmt.Sprintf("%x", vlib.LeafHash(b))[:16]
}

func TestC15(t *testing.T) {
	st := vlib.StatsFor("C15", "dist", ruleC15)
	rapid.Check(t, func(rt *rapid.T) {
		c := &DistCase{WitnessName: rapid.SampledFrom([]string{"witness.example/w", "w", "wit?ness", "wit%ness", "wïtnéss", "a#b", "a&b=c", "a;b"}).Draw(rt, "wname")}
		n := rapid.IntRange(1, 6).Draw(rt, "nlogs")
		for i := 0; i < n; i++ {
			c.Logs = append(c.Logs, DistLog{
				Origin:            fmt.Sprintf("%s/%d", rapid.SampledFrom([]string{"example.com/log", "rekor.example - 1", "л"}).Draw(rt, "origin"), i),
				KeyIdx:            rapid.IntRange(0, 2).Draw(rt, "key"),
				Witness:           witnessAnswers[vlib.Uniform(rt, len(witnessAnswers), "wans")],
				Distrib:           distribAnswers[vlib.Uniform(rt, len(distribAnswers), "dans")],
				Size:              rapid.IntRange(0, 30).Draw(rt, "size"),
				SameNameAsWitness: vlib.Pct(rt, 12, "samename"),
			})
		}
		if vlib.Pct(rt, 30, "multiround") {
			c.Rounds = rapid.IntRange(2, 3).Draw(rt, "rounds")
		}
		nt, classes, err := runDist(c)
		st.Record(distHash(c), nt, classes, vlib.SampleOf(c))
		if err != nil {
			vlib.SaveFailure("C15", "dist", c, err)
			rt.Fatalf("C15 violated: %v", err)
		}
	})
}

func init() {
	replayers["C15/dist"] = func(raw json.RawMessage) error {
		var c DistCase
		if err := json.Unmarshal(raw, &c); err != nil {
			return err
		}
		_, _, err := runDist(&c)
		return err
	}
}
