//go:build verif

package verifh

// childMain is the entry point of re-executed child processes (C06, C19); filled in by
// the files that need it.
var childMains = map[string]func() int{}

func childMain() int {
	if f, ok := childMains[getenv("VERIF_CHILD")]; ok {
		return f()
	}
	return 3
}

func getenv(k string) string { return osGetenv(k) }
