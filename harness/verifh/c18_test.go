//go:build verif

package verifh

import (
	"bytes"
	"context"
	"encoding/json"
	"fmt"
	"io"
	"net/http"
	"os"
	"strconv"
	"strings"
	"sync"
	"testing"
	"time"

	"github.com/transparency-dev/formats/log"
	"github.com/transparency-dev/witness/internal/client"
	"github.com/transparency-dev/witness/internal/config"
	"github.com/transparency-dev/witness/internal/feeder/sumdb"
	"github.com/transparency-dev/witness/internal/verifh/vlib"
	"golang.org/x/mod/sumdb/tlog"
	"pgregory.net/rapid"
)

const sumdbOrigin = "go.sum database tree"

// recorder is an in-memory transport that records the requested paths.
type recorder struct {
	mu    sync.Mutex
	paths []string
	serve func(path string) (int, []byte)
	// breakBody, if set, says for which requests the 200 response's body breaks off
	breakBody func(path string) bool
}

func (r *recorder) RoundTrip(req *http.Request) (*http.Response, error) {
	if err := req.Context().Err(); err != nil {
		return nil, err // like a real transport: a request whose context is over is not sent
	}
	p := req.URL.EscapedPath()
	r.mu.Lock()
	r.paths = append(r.paths, p)
	r.mu.Unlock()
	code, body := 404, []byte("not found")
	if r.serve != nil {
		code, body = r.serve(p)
	}
	resp := &http.Response{StatusCode: code, Status: strconv.Itoa(code), Body: io.NopCloser(bytes.NewReader(body)), Header: http.Header{}, Request: req, ContentLength: int64(len(body))}
	if r.breakBody != nil && r.breakBody(p) {
		// the connection dies in the middle of the body
		resp.Body = io.NopCloser(io.MultiReader(bytes.NewReader(body[:len(body)/2]), brokenReader{}))
	}
	return resp, nil
}

type brokenReader struct{}

func (brokenReader) Read([]byte) (int, error) { return 0, io.ErrUnexpectedEOF }

// TileCase is one tile coordinate.
type TileCase struct {
	L int   `json:"l"`
	N int64 `json:"n"`
	W int   `json:"w"`    // 1..256
	D bool  `json:"data"` // data tile (leaves) instead of hash tile
	// Prefix: the SumDB is mounted under this path of its host ("" or e.g.
	// "/sumdb/sum.example.org", the way a module proxy serves one)
	Prefix string `json:"prefix,omitempty"`
}

func runTile(c *TileCase) (bool, []string, error) {
	rec := &recorder{serve: func(string) (int, []byte) { return 200, []byte("x") }}
	sdb := client.NewSumDB(8, vlib.NewKey("sum.example", "sumdb").Verifier(), "http://sumdb.example"+c.Prefix, &http.Client{Transport: rec})
	var err error
	want := tlog.Tile{H: 8, L: c.L, N: c.N, W: c.W}
	if c.D {
		want.L = -1
		if c.W == 256 {
			_, err = sdb.FullLeavesAtOffset(int(c.N))
		} else {
			_, err = sdb.PartialLeavesAtOffset(int(c.N), c.W)
		}
	} else {
		partial := c.W
		if c.W == 256 {
			partial = 0
		}
		_, err = sdb.TileData(c.L, int(c.N), partial)
	}
	if err != nil {
		return false, nil, fmt.Errorf("client call failed: %v", err)
	}
	cls := "hash"
	if c.D {
		cls = "data"
	}
	if c.W < 256 {
		cls += "-partial"
	}
	if c.N >= 1000 {
		cls += "-carry"
	}
	nontrivial := c.N >= 1000 || c.W < 256
	if len(rec.paths) != 1 {
		return nontrivial, []string{cls}, fmt.Errorf("client made %d requests, want 1", len(rec.paths))
	}
	if c.Prefix != "" {
		cls += "-mounted"
	}
	if got, wantp := rec.paths[0], c.Prefix+"/"+want.Path(); got != wantp {
		return nontrivial, []string{cls}, fmt.Errorf("tile L=%d N=%d W=%d of the SumDB at http://sumdb.example%s: client requested %q, the reference tlog implementation names it %q", want.L, c.N, c.W, c.Prefix, got, wantp)
	}
	return nontrivial, []string{cls}, nil
}

var carryEdges = func() []int64 {
	var e []int64
	for _, p := range []int64{1000, 1000000, 1000000000} {
		for _, d := range []int64{-2, -1, 0, 1, 2} {
			e = append(e, p+d)
		}
		for _, m := range []int64{2, 9, 10, 99, 100, 999} {
			if p*m <= 1000000000 {
				e = append(e, p*m-1, p*m, p*m+1)
			}
		}
	}
	e = append(e, 999999, 1001001, 1000999, 999000, 123456789, 100200300, 1000000000)
	return e
}()

func TestC18Paths(t *testing.T) {
	st := vlib.StatsFor("C18", "paths", "tile coordinates (level 0..7 or data, index from {0..1100 dense, every x%03d carry boundary up to 10^9, random}, width 1..256) through the exported SumDB client over a recording transport, compared with tlog.Tile.Path (also for a SumDB mounted under a path prefix); non-trivial = index >= 1000 or partial width; distinct by coordinate")
	// dense deterministic part
	for n := int64(0); n <= 1100; n++ {
		for _, w := range []int{256, 1, 255} {
			c := &TileCase{L: int(n % 8), N: n, W: w, D: n%5 == 0}
			if n%3 == 1 {
				c.Prefix = "/sumdb/sum.example.org"
			}
			nt, cl, err := runTile(c)
			st.Record(fmt.Sprintf("%v", *c), nt, cl, vlib.SampleOf(c))
			if err != nil {
				vlib.SaveFailure("C18", "paths", c, err)
				t.Fatalf("C18 violated: %v", err)
			}
		}
	}
	for _, n := range carryEdges {
		for l := 0; l <= 7; l++ {
			for _, w := range []int{256, 37} {
				for _, d := range []bool{false, true} {
					c := &TileCase{L: l, N: n, W: w, D: d}
					nt, cl, err := runTile(c)
					st.Record(fmt.Sprintf("%v", *c), nt, cl, vlib.SampleOf(c))
					if err != nil {
						vlib.SaveFailure("C18", "paths", c, err)
						t.Fatalf("C18 violated: %v", err)
					}
				}
			}
		}
	}
	rapid.Check(t, func(rt *rapid.T) {
		c := &TileCase{L: rapid.IntRange(0, 7).Draw(rt, "l"), W: rapid.IntRange(1, 256).Draw(rt, "w"), D: vlib.Pct(rt, 20, "data"), Prefix: rapid.SampledFrom([]string{"", "", "/sumdb/sum.example.org", "/a"}).Draw(rt, "prefix")}
		switch rapid.IntRange(0, 2).Draw(rt, "nk") {
		case 0:
			c.N = rapid.Int64Range(0, 1100).Draw(rt, "n")
		case 1:
			c.N = rapid.SampledFrom(carryEdges).Draw(rt, "n")
		default:
			c.N = rapid.Int64Range(0, 1000000000).Draw(rt, "n")
		}
		nt, cl, err := runTile(c)
		st.Record(fmt.Sprintf("%v", *c), nt, cl, vlib.SampleOf(c))
		if err != nil {
			vlib.SaveFailure("C18", "paths", c, err)
			rt.Fatalf("C18 violated: %v", err)
		}
	})
}

// --- feeder proofs over a stub SumDB ---------------------------------------------------

// PairCase is one (from, to) feed over the stub SumDB.
type PairCase struct {
	From   uint64 `json:"from"`
	To     uint64 `json:"to"`
	Prefix string `json:"prefix,omitempty"` // see TileCase.Prefix
}

var (
	sumKey    = vlib.NewKey("sum.example", "sumdb")
	sumBranch = vlib.RootBranch("S", 0)
)

// branchHashReader serves tlog stored hashes straight from the reference tree.
type branchHashReader struct{ b *vlib.Branch }

func (r branchHashReader) ReadHashes(indexes []int64) ([]tlog.Hash, error) {
	out := make([]tlog.Hash, len(indexes))
	for i, x := range indexes {
		level, n := tlog.SplitStoredHashIndex(x)
		out[i] = tlog.Hash(r.b.NodeAt(uint8(level), uint64(n)))
	}
	return out, nil
}

func sumdbLatest(size uint64) []byte {
	root := sumBranch.Root(size)
	text := string(tlog.FormatTree(tlog.Tree{N: int64(size), Hash: tlog.Hash(root)}))
	return vlib.Note(text, sumKey.SigLine(text))
}

type recWitness struct {
	latest []byte
	calls  int
	old    uint64
	proof  [][]byte
	cp     []byte
}

func (w *recWitness) GetLatestCheckpoint(ctx context.Context, logID string) ([]byte, error) {
	if w.latest == nil {
		return nil, os.ErrNotExist
	}
	return w.latest, nil
}

func (w *recWitness) Update(ctx context.Context, logID string, oldSize uint64, newCP []byte, proof [][]byte) ([]byte, error) {
	w.calls++
	w.old, w.proof, w.cp = oldSize, proof, newCP
	return newCP, nil
}

func runPair(c *PairCase) (bool, []string, error) {
	hr := branchHashReader{sumBranch}
	var served []tlog.Tile
	rec := &recorder{}
	rec.serve = func(p string) (int, []byte) {
		if !strings.HasPrefix(p, c.Prefix+"/") {
			return 404, []byte("nothing is mounted here")
		}
		p = strings.TrimPrefix(p, c.Prefix)
		if p == "/latest" {
			return 200, sumdbLatest(c.To)
		}
		tile, err := tlog.ParseTilePath(strings.TrimPrefix(p, "/"))
		if err != nil {
			return 404, []byte("bad tile path")
		}
		// a real server only has tiles of its current tree
		if tile.L < 0 || uint64(tile.N*256+int64(tile.W))<<(uint(8*tile.L)) > c.To {
			return 404, []byte("no such tile")
		}
		data, err := tlog.ReadTileData(tile, hr)
		if err != nil {
			return 500, []byte(err.Error())
		}
		served = append(served, tile)
		return 200, data
	}
	lc, err := config.NewLog(sumdbOrigin, sumKey.VKey(), "http://sumdb.example"+c.Prefix)
	if err != nil {
		return false, nil, fmt.Errorf("harness: %v", err)
	}
	rw := &recWitness{latest: sumdbLatest(c.From)}
	if err := sumdb.FeedLog(context.Background(), lc, rw, &http.Client{Transport: rec}, 0); err != nil {
		return true, nil, fmt.Errorf("FeedLog(%d -> %d) failed: %v (requested %v)", c.From, c.To, err, rec.paths)
	}
	partial := false
	for _, p := range rec.paths {
		p = strings.TrimPrefix(p, c.Prefix)
		if p == "/latest" {
			continue
		}
		tile, err := tlog.ParseTilePath(strings.TrimPrefix(p, "/"))
		if err != nil {
			return true, nil, fmt.Errorf("feeder requested %q, which is not a tile path", p)
		}
		if tile.H != 8 {
			return true, nil, fmt.Errorf("feeder requested tile %q of height %d", p, tile.H)
		}
		if tile.W < 256 {
			partial = true
		}
	}
	cls := "pair"
	if partial {
		cls = "pair-partial-tile"
	}
	if c.Prefix != "" {
		cls += "-mounted"
	}
	if rw.calls != 1 {
		return partial, []string{cls}, fmt.Errorf("feeder made %d updates, want 1", rw.calls)
	}
	if rw.old != c.From {
		return partial, []string{cls}, fmt.Errorf("feeder sent old size %d, want %d", rw.old, c.From)
	}
	r1, r2 := sumBranch.Root(c.From), sumBranch.Root(c.To)
	if !vlib.VerifyConsistencyStrict(c.From, c.To, r1[:], r2[:], rw.proof) {
		return partial, []string{cls}, fmt.Errorf("proof built by the SumDB feeder for %d -> %d (%d hashes) is rejected by the independent RFC 6962 verifier", c.From, c.To, len(rw.proof))
	}
	// and by the witness itself
	hc := &vlib.HistCase{Prop: "C18", Storage: "mem", Seed: "S", Logs: []vlib.LogSpec{{Origin: sumdbOrigin, KeyLabel: "sumdb", KeyName: "sum.example"}}, WKeys: vlib.LegacyWKeys}
	e := vlib.NewEnv(hc)
	w, _, closer, err := e.NewWitness()
	if err != nil {
		return partial, []string{cls}, fmt.Errorf("harness: %v", err)
	}
	defer closer()
	id := log.ID(sumdbOrigin)
	if _, err := w.Update(context.Background(), id, 0, sumdbLatest(c.From), nil); err != nil {
		return partial, []string{cls}, fmt.Errorf("harness: planting %d failed: %v", c.From, err)
	}
	if _, err := w.Update(context.Background(), id, rw.old, rw.cp, rw.proof); err != nil {
		return partial, []string{cls}, fmt.Errorf("the witness refuses the SumDB feeder's step %d -> %d: %v", c.From, c.To, err)
	}
	return partial, []string{cls}, nil
}

func TestC18Pairs(t *testing.T) {
	max := uint64(160)
	if vlib.Thorough() {
		max = 1200
	}
	st := vlib.StatsFor("C18", "pairs", fmt.Sprintf("exhaustive: all size pairs 1 <= from < to <= %d fed by sumdb.FeedLog from a stub SumDB (a quarter of them mounted under a path prefix of its host) that serves only tiles of the published tree; proof checked by the independent verifier and a real witness; non-trivial = the proof needed a partial tile", max))
	shard, nshards := vlib.Shard()
	cell := 0
	for from := uint64(1); from < max; from++ {
		for to := from + 1; to <= max; to++ {
			cell++
			if cell%nshards != shard {
				continue
			}
			c := &PairCase{From: from, To: to}
			if (from+to)%4 == 0 {
				c.Prefix = "/sumdb/sum.example.org" // the same database mounted under a path
			}
			nt, cl, err := runPair(c)
			st.Record(fmt.Sprintf("%d-%d", from, to), nt, cl, vlib.SampleOf(c))
			if err != nil {
				vlib.SaveFailure("C18", "pairs", c, err)
				t.Fatalf("C18 violated: %v", err)
			}
		}
	}
	st.SetExhaustive(true)
}

func TestC18Big(t *testing.T) {
	lim := uint64(1 << 17)
	if vlib.Thorough() {
		lim = 1 << 20
	}
	st := vlib.StatsFor("C18", "big", fmt.Sprintf("sampled size pairs up to %d (tile-boundary biased); non-trivial = the proof needed a partial tile", lim))
	rapid.Check(t, func(rt *rapid.T) {
		gen := func(label string) uint64 {
			switch rapid.IntRange(0, 2).Draw(rt, label+"_k") {
			case 0:
				k := uint64(rapid.IntRange(1, int(lim/256)).Draw(rt, label+"_tile"))
				return k*256 + uint64(rapid.IntRange(-2, 2).Draw(rt, label+"_d"))
			case 1:
				return uint64(rapid.SampledFrom([]int{255, 256, 257, 511, 512, 65535, 65536, 65537, 65791, 65792, 131072}).Draw(rt, label))
			default:
				return rapid.Uint64Range(1, lim).Draw(rt, label)
			}
		}
		a, b := gen("a"), gen("b")
		if a > lim {
			a = lim
		}
		if b > lim {
			b = lim
		}
		if a == b {
			b = a + 1
		}
		if a > b {
			a, b = b, a
		}
		if a == 0 {
			a = 1
		}
		c := &PairCase{From: a, To: b, Prefix: rapid.SampledFrom([]string{"", "", "/sumdb/sum.example.org"}).Draw(rt, "prefix")}
		nt, cl, err := runPair(c)
		st.Record(fmt.Sprintf("%d-%d", a, b), nt, cl, vlib.SampleOf(c))
		if err != nil {
			vlib.SaveFailure("C18", "big", c, err)
			rt.Fatalf("C18 violated: %v", err)
		}
	})
}

func init() {
	replayers["C18/paths"] = func(raw json.RawMessage) error {
		var c TileCase
		if err := json.Unmarshal(raw, &c); err != nil {
			return err
		}
		_, _, err := runTile(&c)
		return err
	}
	pr := func(raw json.RawMessage) error {
		var c PairCase
		if err := json.Unmarshal(raw, &c); err != nil {
			return err
		}
		_, _, err := runPair(&c)
		return err
	}
	replayers["C18/pairs"] = pr
	replayers["C18/big"] = pr
}

// --- several feed cycles of one long-running feeder ------------------------------------

// CycleCase: a SumDB-style log grows through Sizes while one periodic feeder runs.
type CycleCase struct {
	Sizes []uint64 `json:"sizes"`
	// Bump[i] > 0: while the feeder is submitting its step to Sizes[i], the witness is
	// moved (honestly, by "another feeder") to an intermediate size Sizes[i-1] < B < Sizes[i],
	// so the feeder's submission is refused as stale and it must redo the step from B.
	Bump []uint64 `json:"bump,omitempty"`
	// BreakTile k > 0: the k-th tile response of the run is a 200 whose body breaks off half
	// way (connection lost); the feeder must get over it in a later attempt or cycle
	BreakTile int `json:"break_tile,omitempty"`
	// RaceHead[i]: right after the stub has served /latest at Sizes[i] for the first time
	// it publishes Sizes[i+1] (the log grows while the feeder is working on the step)
	RaceHead []bool `json:"race_head,omitempty"`
}

// bumpAdapter moves the witness forward behind the feeder's back, once per armed step.
type bumpAdapter struct {
	realAdapter
	mu   sync.Mutex
	to   uint64 // armed intermediate size (0 = none)
	done int
	bad  error // first submission with a wrong proof
}

// badProof reports the first submission whose proof the independent verifier rejects.
func (a *bumpAdapter) badProof() error {
	a.mu.Lock()
	defer a.mu.Unlock()
	return a.bad
}

func (a *bumpAdapter) Update(ctx context.Context, logID string, oldSize uint64, newCP []byte, proof [][]byte) ([]byte, error) {
	// every submission of the feeder is for an honest pair of sizes of the one tree: its
	// proof must be a consistency proof for exactly that pair
	if text, _, ok := vlib.SplitNote(newCP); ok {
		if tree, err := tlog.ParseTree([]byte(text)); err == nil && oldSize > 0 && oldSize < uint64(tree.N) {
			r1, r2 := sumBranch.Root(oldSize), sumBranch.Root(uint64(tree.N))
			if !vlib.VerifyConsistencyStrict(oldSize, uint64(tree.N), r1[:], r2[:], proof) {
				a.mu.Lock()
				if a.bad == nil {
					a.bad = fmt.Errorf("the SumDB feeder submitted checkpoint %d with old size %d and a proof of %d hashes that is NOT a consistency proof for that pair (independent RFC 6962 verifier)", tree.N, oldSize, len(proof))
				}
				a.mu.Unlock()
			}
		}
	}
	a.mu.Lock()
	b := a.to
	a.to = 0
	a.mu.Unlock()
	if b > oldSize {
		if _, err := a.w.Update(ctx, logID, oldSize, sumdbLatest(b), sumBranch.Consistency(oldSize, b)); err == nil {
			a.mu.Lock()
			a.done++
			a.mu.Unlock()
		}
	}
	return a.realAdapter.Update(ctx, logID, oldSize, newCP, proof)
}

func runCycles(c *CycleCase) (bool, []string, error) {
	hr := branchHashReader{sumBranch}
	var mu sync.Mutex
	cur := c.Sizes[0]
	partial, raced := false, false
	raceNext := map[uint64]uint64{}
	for i := range c.Sizes {
		if i < len(c.RaceHead) && c.RaceHead[i] && i+1 < len(c.Sizes) {
			raceNext[c.Sizes[i]] = c.Sizes[i+1]
		}
	}
	rec := &recorder{}
	rec.serve = func(p string) (int, []byte) {
		mu.Lock()
		size := cur
		mu.Unlock()
		if p == "/latest" {
			mu.Lock()
			if next, ok := raceNext[size]; ok {
				cur = next // the head moves on as soon as this answer is out
				delete(raceNext, size)
				raced = true
			}
			mu.Unlock()
			return 200, sumdbLatest(size)
		}
		tile, err := tlog.ParseTilePath(strings.TrimPrefix(p, "/"))
		if err != nil || tile.L < 0 {
			return 404, []byte("bad tile path")
		}
		if uint64(tile.N*256+int64(tile.W))<<(uint(8*tile.L)) > size {
			return 404, []byte("no such tile")
		}
		if tile.W < 256 {
			mu.Lock()
			partial = true
			mu.Unlock()
		}
		data, err := tlog.ReadTileData(tile, hr)
		if err != nil {
			return 500, []byte(err.Error())
		}
		return 200, data
	}
	tileReqs, broke := 0, false
	if c.BreakTile > 0 {
		rec.breakBody = func(p string) bool {
			if !strings.Contains(p, "/tile/") {
				return false
			}
			mu.Lock()
			defer mu.Unlock()
			tileReqs++
			if tileReqs == c.BreakTile {
				broke = true
				return true
			}
			return false
		}
	}
	hc := &vlib.HistCase{Prop: "C18", Storage: "mem", Seed: "S", Logs: []vlib.LogSpec{{Origin: sumdbOrigin, KeyLabel: "sumdb", KeyName: "sum.example"}}, WKeys: vlib.LegacyWKeys}
	e := vlib.NewEnv(hc)
	w, _, closer, err := e.NewWitness()
	if err != nil {
		return false, nil, fmt.Errorf("harness: %v", err)
	}
	defer closer()
	lc, err := config.NewLog(sumdbOrigin, sumKey.VKey(), "http://sumdb.example")
	if err != nil {
		return false, nil, fmt.Errorf("harness: %v", err)
	}
	ba := &bumpAdapter{realAdapter: realAdapter{w}}
	ctx, cancel := context.WithCancel(context.Background())
	done := make(chan error, 1)
	go func() {
		done <- sumdb.FeedLog(ctx, lc, ba, &http.Client{Transport: rec}, 15*time.Millisecond)
	}()
	defer func() {
		cancel()
		select {
		case <-done:
		case <-time.After(10 * time.Second):
		}
	}()
	id := log.ID(sumdbOrigin)
	for i, s := range c.Sizes {
		if i > 0 && i < len(c.Bump) && c.Bump[i] > c.Sizes[i-1] && c.Bump[i] < s {
			ba.mu.Lock()
			ba.to = c.Bump[i]
			ba.mu.Unlock()
		}
		mu.Lock()
		if cur < s {
			cur = s
		}
		mu.Unlock()
		deadline := time.Now().Add(20 * time.Second)
		for {
			if err := ba.badProof(); err != nil {
				return true, []string{"cycles"}, err
			}
			if b, err := w.GetCheckpoint(id); err == nil {
				h := e.ScanCheckpoint(b)
				// this size, or (when the head raced ahead) a later published one
				if want := sumBranch.Root(h.Size); h.ParseOK && h.Size >= s && bytes.Equal(h.Root, want[:]) {
					break
				}
			}
			if time.Now().After(deadline) {
				held := "nothing"
				if b, err := w.GetCheckpoint(id); err == nil {
					held = fmt.Sprintf("size %d", e.ScanCheckpoint(b).Size)
				}
				return true, []string{"cycles"}, fmt.Errorf("one periodic SumDB feeder, log grew through %v (witness moved to %v during the submissions): 20s (>1000 feed cycles) after size %d (step %d) was published the witness holds %s: the feeder's proof for this size pair is not accepted", c.Sizes, c.Bump, s, i, held)
			}
			time.Sleep(5 * time.Millisecond)
		}
	}
	if err := ba.badProof(); err != nil {
		return true, []string{"cycles"}, err
	}
	cls := []string{fmt.Sprintf("cycles:%d", len(c.Sizes))}
	mu.Lock()
	if raced {
		cls = append(cls, "head-moved-during-a-step")
	}
	mu.Unlock()
	if ba.done > 0 {
		cls = append(cls, "witness-moved-under-the-feeder")
	}
	mu.Lock()
	if broke {
		cls = append(cls, "tile-body-broke-off")
	}
	mu.Unlock()
	return partial, cls, nil
}

func TestC18Cycles(t *testing.T) {
	st := vlib.StatsFor("C18", "cycles", "ONE periodic sumdb.FeedLog (interval 15ms) follows a stub SumDB that grows through 3-7 drawn sizes (steps inside one tile, across tile boundaries, up to 2^17) into a real witness: in about half of the steps the witness is moved honestly to an intermediate size while the feeder is submitting (its submission is refused as stale and it must redo the step from there); in half of the cases one tile response breaks off in the middle of its body; in 30% of the steps the log's head moves on right after the feeder read it; every proof the feeder submits is checked by the independent verifier for exactly the submitted pair; state carried by the feeder across cycles and retries must not spoil later proofs; non-trivial = a partial tile was needed")
	rapid.Check(t, func(rt *rapid.T) {
		n := rapid.IntRange(3, 7).Draw(rt, "n")
		c := &CycleCase{}
		var s uint64
		for i := 0; i < n; i++ {
			switch rapid.IntRange(0, 3).Draw(rt, "stepk") {
			case 0, 1:
				s += uint64(rapid.IntRange(1, 12).Draw(rt, "small"))
			case 2:
				s += uint64(rapid.IntRange(1, 600).Draw(rt, "mid"))
			default:
				s += uint64(rapid.IntRange(1, 70000).Draw(rt, "big"))
			}
			c.Sizes = append(c.Sizes, s)
			var b uint64
			if i > 0 && s-c.Sizes[i-1] >= 2 && rapid.Bool().Draw(rt, "bump") {
				b = c.Sizes[i-1] + 1 + uint64(rapid.IntRange(0, int(s-c.Sizes[i-1])-2).Draw(rt, "bumpto"))
			}
			c.Bump = append(c.Bump, b)
		}
		for i := range c.Sizes {
			c.RaceHead = append(c.RaceHead, i+1 < len(c.Sizes) && vlib.Pct(rt, 30, "racehead"))
		}
		if rapid.Bool().Draw(rt, "breaktile") {
			c.BreakTile = rapid.IntRange(1, 6).Draw(rt, "breakat")
		}
		nt, cl, err := runCycles(c)
		st.Record(fmt.Sprint(c.Sizes, c.Bump, c.BreakTile, c.RaceHead), nt, cl, vlib.SampleOf(c))
		if err != nil {
			vlib.SaveFailure("C18", "cycles", c, err)
			rt.Fatalf("C18 violated: %v", err)
		}
	})
}

func init() {
	replayers["C18/cycles"] = func(raw json.RawMessage) error {
		var c CycleCase
		if err := json.Unmarshal(raw, &c); err != nil {
			return err
		}
		_, _, err := runCycles(&c)
		return err
	}
}
