//go:build verif

package verifh

import (
	"bytes"
	"fmt"
	"os"
	"strconv"
	"strings"
	"testing"

	"github.com/transparency-dev/witness/internal/verifh/vlib"
	"pgregory.net/rapid"
)

const ruleC09 = "each request is answered by the reference rule list; non-trivial = request judged by a rule after 'nothing stored' (a checkpoint was stored when it arrived) and inside the claim; distinct by case hash"

// isKnown reports whether a finding id is listed in known_findings.txt (passed by the
// driver); regions covered by a listed finding are excluded from generation and counted.
func isKnown(id string) bool {
	for _, k := range strings.Split(os.Getenv("VERIF_KNOWN"), ",") {
		if k == id {
			return true
		}
	}
	return false
}

// f7Region: stored size 0, submitted size 0, same root, non-empty proof.
func f7Region(st *vlib.Step) bool {
	return st.PreHeld.Present && st.PreHeld.ParseOK && st.PreHeld.Size == 0 && st.Req.CpSize == 0 && len(st.Req.Proof) > 0 &&
		bytes.Equal(st.PreHeld.Root, st.Req.CpRoot) && st.Req.Plain && st.Req.Old == 0
}

// checkRules is the C09 oracle over a sequence of observed steps.
func checkRules(e *vlib.Env, steps []*vlib.Step, stats *vlib.Stats) (nontrivial bool, classes []string, err error) {
	for _, st := range steps {
		ex := vlib.ExpectVerdict(st)
		if !ex.InClaim {
			classes = append(classes, "outside:"+ex.Why)
			continue
		}
		if isKnown("F7") && f7Region(st) {
			stats.Exclude("F7")
			continue
		}
		classes = append(classes, "want:"+ex.Verdict)
		if st.PreHeld.Present {
			nontrivial = true
		}
		if ex.Verdict == vlib.VAccepted || ex.Verdict == vlib.VBadProof {
			// cross-check the reference verifier against ground truth on entries
			if st.PreHeld.Present && st.PreHeld.Branch != nil && st.Req.CpBr != nil && st.Req.CpSize > st.PreHeld.Size && st.PreHeld.Size > 0 {
				truth := vlib.IsPrefix(st.PreHeld.Branch, st.PreHeld.Size, st.Req.CpBr, st.Req.CpSize)
				if ex.Verdict == vlib.VAccepted && !truth {
					return nontrivial, classes, fmt.Errorf("step %d: HARNESS: reference verifier accepted a proof between trees that are not prefix-related", st.Index)
				}
			}
		}
		if st.Verdict != ex.Verdict {
			return nontrivial, classes, fmt.Errorf("step %d (%s): stored=%s old=%d submitted size=%d proof=%d hashes: want verdict %q, got %q (err=%v)",
				st.Index, st.Op.Note, heldStr(st.PreHeld), st.Req.Old, st.Req.CpSize, len(st.Req.Proof), ex.Verdict, st.Verdict, st.Err)
		}
		if ex.WantStored && !bytes.Equal(st.Out, st.PreHeld.Raw) {
			return nontrivial, classes, fmt.Errorf("step %d (%s): refusal %q must return the stored cosigned checkpoint; got %d bytes (stored %d bytes)", st.Index, st.Op.Note, ex.Verdict, len(st.Out), len(st.PreHeld.Raw))
		}
	}
	return nontrivial, classes, nil
}

func heldStr(h vlib.Held) string {
	if !h.Present {
		return "none"
	}
	return fmt.Sprintf("size %d", h.Size)
}

func runC09(c *vlib.HistCase, stats *vlib.Stats) (bool, []string, error) {
	e := vlib.NewEnv(c)
	w, _, closer, err := e.NewWitness()
	if err != nil {
		return false, nil, fmt.Errorf("harness: %v", err)
	}
	defer closer()
	steps, err := e.Exec(vlib.WitnessTarget{W: w}, vlib.RunOpts{})
	if err != nil {
		return false, nil, err
	}
	return checkRules(e, steps, stats)
}

var profC09 = vlib.Profile{
	Prop: "C09", MinLogs: 1, MaxLogs: 3, MinOps: 3, MaxOps: 30,
	Storages: []string{"mem", "sql"}, Weights: vlib.DefaultWeights, MaxJump: 2048, OtherLogPct: 25, Decorate: 15, SharedKeys: true, MixOldPct: 20, NonCanonPct: 8, ECDSAPct: 20,
}

func init() {
	replayers["C09/hist"] = histReplayer(func(c *vlib.HistCase) error {
		_, _, err := runC09(c, vlib.StatsFor("C09", "hist", ruleC09))
		return err
	})
	replayers["C09/cube"] = replayers["C09/hist"]
	replayers["C09/rand"] = replayers["C09/hist"]
}

func TestC09Hist(t *testing.T) {
	st := vlib.StatsFor("C09", "hist", ruleC09)
	rapid.Check(t, func(rt *rapid.T) {
		c := vlib.GenHist(rt, profC09)
		nt, classes, err := runC09(c, st)
		st.Record(c.Hash(), nt, classes, sampleOf(c))
		if err != nil {
			vlib.SaveFailure("C09", "hist", c, err)
			rt.Fatalf("C09 violated: %v", err)
		}
	})
}

// --- exhaustive cube -----------------------------------------------------------------

type proofVariant struct {
	name string
	spec vlib.ProofSpec
}

func cubeProofVariants() []proofVariant {
	m1, p1 := &vlib.SizeSpec{Rel: "cur", N: -1}, &vlib.SizeSpec{Rel: "cur", N: 1}
	sm1, sp1 := &vlib.SizeSpec{Rel: "sub", N: -1}, &vlib.SizeSpec{Rel: "sub", N: 1}
	return []proofVariant{
		{"empty", vlib.ProofSpec{Kind: "empty"}},
		{"nil", vlib.ProofSpec{Kind: "nil"}},
		{"correct", vlib.ProofSpec{Kind: "correct"}},
		{"from-1", vlib.ProofSpec{Kind: "correct", From: m1}},
		{"from+1", vlib.ProofSpec{Kind: "correct", From: p1}},
		{"to-1", vlib.ProofSpec{Kind: "correct", To: sm1}},
		{"to+1", vlib.ProofSpec{Kind: "correct", To: sp1}},
		{"flip", vlib.ProofSpec{Kind: "flip", I: 0, J: 37}},
		{"dropfirst", vlib.ProofSpec{Kind: "drop", I: 0}},
		{"droplast", vlib.ProofSpec{Kind: "drop", I: -1}},
		{"append", vlib.ProofSpec{Kind: "extra", I: -1}},
		{"randsame", vlib.ProofSpec{Kind: "random", I: 0, J: 5}},
		{"rand3", vlib.ProofSpec{Kind: "random", I: 2, J: 9}},
		{"otherbranch", func() vlib.ProofSpec { b := 1; return vlib.ProofSpec{Kind: "correct", Branch: &b} }()},
	}
}

func cubeCase(s, n, o int, forked bool, pv proofVariant) *vlib.HistCase {
	c := &vlib.HistCase{Prop: "C09", Storage: "mem", Seed: "A", Forks: []vlib.ForkSpec{{Parent: 0, At: 0}},
		Logs: []vlib.LogSpec{{Origin: "example.com/log", KeyLabel: "log0", KeyName: "logkey"}}, WKeys: vlib.LegacyWKeys}
	if s >= 0 {
		c.Ops = append(c.Ops, vlib.Op{Kind: "update", Note: "plant", Cp: vlib.CpSpec{Branch: 0, Size: vlib.SizeSpec{Rel: "abs", Abs: uint64(s)}, Origin: -1, Signer: -1},
			Old: vlib.SizeSpec{Rel: "abs"}, Proof: vlib.ProofSpec{Kind: "empty"}})
	}
	probe := vlib.Op{Kind: "update", Note: "probe:" + pv.name, Cp: vlib.CpSpec{Branch: 0, Size: vlib.SizeSpec{Rel: "abs", Abs: uint64(n)}, Origin: -1, Signer: -1},
		Old: vlib.SizeSpec{Rel: "abs", Abs: uint64(o)}, Proof: pv.spec}
	if forked {
		probe.Cp.Branch = 1
		if n == 0 {
			probe.Cp.Root = "rand" // the empty tree has one root; a different one must be invented
		}
	}
	c.Ops = append(c.Ops, probe)
	return c
}

func shardOf() (int, int) {
	parts := strings.Split(os.Getenv("VERIF_SHARD"), "/")
	if len(parts) != 2 {
		return 0, 1
	}
	i, _ := strconv.Atoi(parts[0])
	n, _ := strconv.Atoi(parts[1])
	if n <= 0 {
		return 0, 1
	}
	return i, n
}

func TestC09Cube(t *testing.T) {
	max := 9
	if os.Getenv("VERIF_TIER") == "thorough" {
		max = 24
	}
	st := vlib.StatsFor("C09", "cube", fmt.Sprintf("exhaustive: stored s in {none,0..%d} x submitted n in 0..%d x old o in 0..%d x {same branch, fork with different root} x 14 proof variants, one fresh witness per cell; ", max, max, max+1)+ruleC09)
	shard, nshards := shardOf()
	variants := cubeProofVariants()
	cell := 0
	for s := -1; s <= max; s++ {
		for n := 0; n <= max; n++ {
			for o := 0; o <= max+1; o++ {
				for _, forked := range []bool{false, true} {
					for _, pv := range variants {
						cell++
						if cell%nshards != shard {
							continue
						}
						c := cubeCase(s, n, o, forked, pv)
						nt, classes, err := runC09(c, st)
						st.Record(c.Hash(), nt, classes, sampleOf(c))
						if err != nil {
							vlib.SaveFailure("C09", "cube", c, err)
							t.Fatalf("C09 violated at cell s=%d n=%d o=%d forked=%v proof=%s: %v", s, n, o, forked, pv.name, err)
						}
					}
				}
			}
		}
	}
	st.SetExhaustive(true)
}

// --- random large sizes ---------------------------------------------------------------

var bigSizes = []uint64{0, 1, 2, 3, 63, 64, 65, 255, 256, 257, 1 << 16, 1<<16 + 1, 1<<32 - 1, 1 << 32, 1<<40 + 12345, 1<<62 - 1, 1 << 62, 1<<62 + 1, 1<<63 - 1, 1 << 63}

func genBig(t *rapid.T, label string) uint64 {
	switch rapid.IntRange(0, 3).Draw(t, label+"_k") {
	case 0:
		return rapid.SampledFrom(bigSizes).Draw(t, label)
	case 1:
		return uint64(rapid.IntRange(0, 200).Draw(t, label))
	case 2:
		sh := rapid.IntRange(1, 62).Draw(t, label+"_sh")
		d := rapid.IntRange(-2, 2).Draw(t, label+"_d")
		if rapid.IntRange(0, 3).Draw(t, label+"_far") == 0 {
			d = rapid.IntRange(3, 20000).Draw(t, label+"_dfar") // a little further above the power of two
		}
		return uint64(1)<<uint(sh) + uint64(d)
	default:
		return rapid.Uint64Range(0, 1<<63).Draw(t, label)
	}
}

func TestC09Rand(t *testing.T) {
	st := vlib.StatsFor("C09", "rand", "random (stored, submitted, old) up to 2^63 / old up to 2^64-1 on a synthetic tree (64 real leaves then constant filler); "+ruleC09)
	variants := cubeProofVariants()
	rapid.Check(t, func(rt *rapid.T) {
		s := genBig(rt, "s")
		var n uint64
		switch rapid.IntRange(0, 3).Draw(rt, "nk") {
		case 0:
			n = s
		case 1:
			n = genBig(rt, "n")
		default:
			d := genBig(rt, "nd")
			n = s + d
			if n < s || n > 1<<63 {
				n = 1 << 63
			}
		}
		var o uint64
		switch rapid.IntRange(0, 4).Draw(rt, "ok") {
		case 0, 1:
			o = s
		case 2:
			o = rapid.SampledFrom([]uint64{0, 1, n, n + 1, s + 1, s - 1, 1 << 63, 1<<63 + 1, ^uint64(0)}).Draw(rt, "o")
		default:
			o = rapid.Uint64().Draw(rt, "o")
		}
		forked := rapid.IntRange(0, 3).Draw(rt, "forked") == 0
		pv := variants[rapid.IntRange(0, len(variants)-1).Draw(rt, "pv")]
		if vlib.Pct(rt, 25, "honest") {
			// the one cell where everything is right: old = stored <= submitted, same
			// branch, correct proof - must be accepted for every pair of sizes
			if n < s {
				s, n = n, s
			}
			o, forked, pv = s, false, variants[2] // "correct"
		}
		c := &vlib.HistCase{Prop: "C09", Storage: rapid.SampledFrom([]string{"mem", "sql"}).Draw(rt, "storage"), Seed: "B", Filler: 64,
			Forks: []vlib.ForkSpec{{Parent: 0, At: uint64(rapid.IntRange(0, 63).Draw(rt, "fork"))}},
			Logs:  []vlib.LogSpec{{Origin: "example.com/log", KeyLabel: "log0", KeyName: "logkey"}}, WKeys: vlib.ProdWKeys}
		c.Ops = append(c.Ops, vlib.Op{Kind: "update", Note: "plant", Cp: vlib.CpSpec{Branch: 0, Size: vlib.SizeSpec{Rel: "abs", Abs: s}, Origin: -1, Signer: -1},
			Old: vlib.SizeSpec{Rel: "abs"}, Proof: vlib.ProofSpec{Kind: "empty"}})
		probe := vlib.Op{Kind: "update", Note: "probe:" + pv.name, Cp: vlib.CpSpec{Branch: 0, Size: vlib.SizeSpec{Rel: "abs", Abs: n}, Origin: -1, Signer: -1},
			Old: vlib.SizeSpec{Rel: "abs", Abs: o}, Proof: pv.spec}
		if forked {
			probe.Cp.Branch = 1
		}
		c.Ops = append(c.Ops, probe)
		nt, classes, err := runC09(c, st)
		st.Record(c.Hash(), nt, classes, sampleOf(c))
		if err != nil {
			vlib.SaveFailure("C09", "rand", c, err)
			rt.Fatalf("C09 violated: %v", err)
		}
	})
}
