//go:build verif

package vlib

import (
	"bytes"
	"context"
	"crypto/sha256"
	"database/sql"
	"encoding/base64"
	"encoding/hex"
	"encoding/json"
	"errors"
	"fmt"
	"sort"
	"strconv"
	"strings"
	"time"

	_ "github.com/mattn/go-sqlite3" // sqlite driver, as cmd/omniwitness loads it
	"github.com/transparency-dev/formats/log"
	"github.com/transparency-dev/merkle/rfc6962"
	"github.com/transparency-dev/witness/internal/persistence"
	"github.com/transparency-dev/witness/internal/persistence/inmemory"
	psql "github.com/transparency-dev/witness/internal/persistence/sql"
	"github.com/transparency-dev/witness/internal/witness"
	"golang.org/x/mod/sumdb/note"
	"google.golang.org/grpc/codes"
	"google.golang.org/grpc/status"
)

// ---------------------------------------------------------------------------------
// Case description (plain data, JSON-serialisable; this is the replay file format)

// ForkSpec defines branch i+1 of a universe: it forks from branch Parent at leaf At.
type ForkSpec struct {
	Parent int    `json:"parent"`
	At     uint64 `json:"at"`
}

// LogSpec is one configured log.
type LogSpec struct {
	Origin   string `json:"origin"`
	KeyLabel string `json:"key"`      // key material label; equal labels share a key
	KeyName  string `json:"key_name"` // note key name
	ECDSA    bool   `json:"ecdsa,omitempty"` // ECDSA P-256 key instead of Ed25519
}

// WKSpec is one witness signing key.
type WKSpec struct {
	Label string `json:"label"`
	Name  string `json:"name"`
	Cosig bool   `json:"cosig"`
}

// SizeSpec is a symbolic size: base (abs=0, cur=size held by the witness for the
// log, sub=size of the submitted checkpoint) plus N, saturating.
type SizeSpec struct {
	Rel string `json:"rel"`
	N   int64  `json:"n,omitempty"`
	Abs uint64 `json:"abs,omitempty"`
}

// ExtraSig describes additional signature lines placed around the log's line.
type ExtraSig struct {
	Kind   string `json:"kind"` // unknown | otherlog | duplog | stalewit | forgedwit | stalewitlegacy
	N      int    `json:"n,omitempty"`
	Before bool   `json:"before,omitempty"`
	TsAgo  int64  `json:"ts_ago,omitempty"`
	Key    int    `json:"keyidx,omitempty"`
}

// Mutation is a byte-level edit applied to the finished checkpoint bytes.
type Mutation struct {
	Kind string `json:"kind"`
	A    int    `json:"a,omitempty"`
	B    int    `json:"b,omitempty"`
}

// CpSpec says how to build the submitted checkpoint.
type CpSpec struct {
	Replay     int        `json:"replay,omitempty"` // k>0: resend the bytes submitted by op k-1
	ReplayOut  bool       `json:"replay_out,omitempty"` // with Replay: resend the bytes the witness returned for op k-1 instead
	Branch     int        `json:"branch"`           // -1: the branch the witness currently holds
	Size       SizeSpec   `json:"size"`
	MinSize    uint64     `json:"min_size,omitempty"` // resolved size is at least this
	NonCanon   int        `json:"non_canon,omitempty"` // 1: leading zeros in the size; 2: spare bits set in the root's base64; 3: both
	Root       string     `json:"root,omitempty"` // "" real | rand | odd0 | odd5 | odd31 | odd33
	RootTag    int        `json:"root_tag,omitempty"`
	Origin     int        `json:"origin"` // -1 own, i>=0 origin of log i, -2 literal
	OriginLit  string     `json:"origin_lit,omitempty"`
	Signer     int        `json:"signer"` // -1 own key, i>=0 key of log i, -2 stranger, -3 no log line
	SignerName string     `json:"signer_name,omitempty"`
	Ext        []string   `json:"ext,omitempty"`
	// PadTo > 0: one more extension line is added so that the whole submitted note is this
	// many bytes long (exactly for Ed25519 log keys; ECDSA signatures vary by a byte or two)
	PadTo int        `json:"pad_to,omitempty"`
	Extra []ExtraSig `json:"extra,omitempty"`
	Mut        *Mutation  `json:"mut,omitempty"`
}

// ProofSpec says how to build the proof. The base is the correct proof between
// From and To (default cur→sub) on branch Branch (default: the submitted branch).
type ProofSpec struct {
	Kind   string    `json:"kind"` // correct | empty | drop | dup | flip | extra | swap | short | long | random | many | padded | replay
	I      int       `json:"i,omitempty"`
	J      int       `json:"j,omitempty"`
	From   *SizeSpec `json:"from,omitempty"`
	To     *SizeSpec `json:"to,omitempty"`
	Branch *int      `json:"branch,omitempty"`
}

// Op is one request.
type Op struct {
	Kind  string    `json:"kind"` // update | plant (write Cp, cosigned by the harness with the witness keys TsAgo seconds ago, straight into storage)
	TsAgo int64     `json:"ts_ago,omitempty"`
	Log   int       `json:"log"`  // -1: an ID no log has
	// IDAlt (with Log -1): the ID is a different spelling of a configured log's ID (other
	// letter case, padding, truncation) - still an ID no log has
	IDAlt *IDAlt `json:"id_alt,omitempty"`
	Cp    CpSpec    `json:"cp"`
	Old   SizeSpec  `json:"old"`
	Proof ProofSpec `json:"proof"`
	Note  string    `json:"note,omitempty"` // generator's label for the op (class), informational
	// Body asks HTTP targets to damage the request body (kind = defect name).
	Body *Mutation `json:"body,omitempty"`
	// Faults makes storage calls of this request fail (targets that support it).
	Faults []FaultSpec `json:"faults,omitempty"`
	// DeadCtx: the request arrives with a context that has already ended ("cancelled" |
	// "expired").
	DeadCtx string `json:"dead_ctx,omitempty"`
}

// HistCase is a whole generated case.
type HistCase struct {
	Prop    string     `json:"prop"`
	Storage string     `json:"storage"` // mem | sql
	Seed    string     `json:"universe"`
	Filler  uint64     `json:"filler,omitempty"`
	Forks   []ForkSpec `json:"forks"`
	Logs    []LogSpec  `json:"logs"`
	WKeys   []WKSpec   `json:"wkeys"`
	Ops     []Op       `json:"ops"`
	// Extra carries property-specific parameters.
	Extra map[string]any `json:"extra,omitempty"`
}

// Hash is a stable digest of the case.
func (c *HistCase) Hash() string {
	b, _ := json.Marshal(c)
	h := sha256.Sum256(b)
	return hex.EncodeToString(h[:8])
}

// ---------------------------------------------------------------------------------
// Environment built from a case

// Env is the resolved universe/config of a case.
type Env struct {
	Case     *HistCase
	Branches []*Branch
	LogKeys  []*Key
	LogIDs   []string
	WKeys    []WitnessKey
	// Signed[label] is every text the harness signed with key material label.
	Signed map[string]map[string]bool
	// trees maps "size/roothex" to a branch with that tree.
	trees map[string]*Branch
	// sent[i] is the checkpoint bytes submitted by op i.
	sent [][]byte
	// outs[i] is what the target returned for op i (or what a plant op stored).
	outs [][]byte
	// outOK[i]: outs[i] is known to be an authentic checkpoint of log outLog[i] (the
	// cosigned result of an accepted update, or a planted state)
	outOK  map[int]bool
	outLog map[int]int
	// okProofs are proofs of accepted updates (for the replay proof kind).
	okProofs [][][]byte
}

// NewEnv resolves the static part of a case.
func NewEnv(c *HistCase) *Env {
	e := &Env{Case: c, Signed: map[string]map[string]bool{}, trees: map[string]*Branch{}}
	e.Branches = []*Branch{RootBranch(c.Seed, c.Filler)}
	for i, f := range c.Forks {
		p := f.Parent
		if p < 0 || p >= len(e.Branches) {
			p = 0
		}
		e.Branches = append(e.Branches, e.Branches[p].ForkAt(f.At, i))
	}
	for _, l := range c.Logs {
		if l.ECDSA {
			e.LogKeys = append(e.LogKeys, NewECDSAKey(l.KeyName, l.KeyLabel))
			e.LogIDs = append(e.LogIDs, log.ID(l.Origin))
			continue
		}
		e.LogKeys = append(e.LogKeys, NewKey(l.KeyName, l.KeyLabel))
		e.LogIDs = append(e.LogIDs, log.ID(l.Origin))
	}
	for _, w := range c.WKeys {
		k := NewKey(w.Name, w.Label)
		kind := WKLegacy
		if w.Cosig {
			kind = WKCosig
		}
		e.WKeys = append(e.WKeys, WitnessKey{K: k, Kind: kind})
	}
	return e
}

// KnownLogs is the witness configuration for the case, keyed exactly as production
// keys it (ID of origin).
func (e *Env) KnownLogs() map[string]witness.LogInfo {
	m := map[string]witness.LogInfo{}
	for i, l := range e.Case.Logs {
		m[e.LogIDs[i]] = witness.LogInfo{SigV: e.LogKeys[i].Verifier(), Origin: l.Origin, Hasher: rfc6962.DefaultHasher}
	}
	return m
}

// Signers returns the configured witness signers.
func (e *Env) Signers() []note.Signer {
	var s []note.Signer
	for _, w := range e.WKeys {
		s = append(s, w.Signer())
	}
	return s
}

// NewPersistence opens the storage named by the case.
func NewPersistence(kind string) (persistence.LogStatePersistence, func()) {
	switch kind {
	case "sql":
		db, err := sql.Open("sqlite3", ":memory:")
		if err != nil {
			panic(err)
		}
		db.SetMaxOpenConns(1)
		return psql.NewPersistence(db), func() { _ = db.Close() }
	default:
		return inmemory.NewPersistence(), func() {}
	}
}

// staleEpoch (2023-11-14) is "some time ago" for stale witness cosignatures.
const staleEpoch = int64(1700000000)

// IDAlt names an unconfigured spelling of a configured ID.
type IDAlt struct {
	Base int `json:"base"`
	Kind int `json:"kind"` // 0 upper case, 1 one letter upper-cased, 2 trailing space, 3 0x prefix, 4 last digit dropped, 5 digit appended
}

func altID(id string, kind int) string {
	switch kind % 6 {
	case 0:
		return strings.ToUpper(id)
	case 1:
		b := []byte(id)
		for i := range b {
			if b[i] >= 'a' && b[i] <= 'f' {
				b[i] -= 32
				break
			}
		}
		return string(b)
	case 2:
		return id + " "
	case 3:
		return "0x" + id
	case 4:
		return id[:len(id)-1]
	default:
		return id + "0"
	}
}

// OpLogID is the ID an op's request is addressed to.
func (e *Env) OpLogID(op Op) string {
	if op.Log >= 0 && op.Log < len(e.LogIDs) {
		return e.LogIDs[op.Log]
	}
	if op.IDAlt != nil && op.IDAlt.Base >= 0 && op.IDAlt.Base < len(e.LogIDs) {
		if id := altID(e.LogIDs[op.IDAlt.Base], op.IDAlt.Kind); !e.isLogID(id) {
			return id
		}
	}
	return UnknownLogID
}

func (e *Env) isLogID(id string) bool {
	for _, l := range e.LogIDs {
		if l == id {
			return true
		}
	}
	return false
}

// UnknownLogID is an ID that no generated configuration contains.
const UnknownLogID = "00000000000000000000000000000000000000000000000000000000deadbeef"

func (e *Env) markSigned(label, text string) {
	m := e.Signed[label]
	if m == nil {
		m = map[string]bool{}
		e.Signed[label] = m
	}
	m[text] = true
}

func (e *Env) noteOut(i int, ok bool, logIdx int) {
	if e.outOK == nil {
		e.outOK, e.outLog = map[int]bool{}, map[int]int{}
	}
	e.outOK[i], e.outLog[i] = ok, logIdx
}

// SignedByLog reports whether the harness ever signed text with the key (material and
// name) configured for log i.
func (e *Env) SignedByLog(i int, text string) bool {
	return e.Signed[e.Case.Logs[i].KeyLabel+"\x00"+e.LogKeys[i].Name][text]
}

// ---------------------------------------------------------------------------------
// Observations

// Held is what the harness reads from a stored/returned checkpoint with its own
// scanner.
type Held struct {
	Present bool
	Raw     []byte
	Text    string
	Origin  string
	Size    uint64
	Root    []byte
	Branch  *Branch // nil if the root is not a tree the harness built
	ParseOK bool
}

// ScanCheckpoint parses checkpoint bytes with the harness's own code.
func (e *Env) ScanCheckpoint(raw []byte) Held {
	h := Held{Present: true, Raw: raw}
	text, _, ok := SplitNote(raw)
	if !ok {
		return h
	}
	h.Text = text
	lines := strings.SplitN(text, "\n", 4)
	if len(lines) < 4 {
		return h
	}
	sz, err := strconv.ParseUint(lines[1], 10, 64)
	if err != nil {
		return h
	}
	root, err := base64.StdEncoding.DecodeString(lines[2])
	if err != nil {
		return h
	}
	h.Origin, h.Size, h.Root, h.ParseOK = lines[0], sz, root, true
	if e != nil {
		h.Branch = e.trees[lines[0]+"\x00"+treeKey(sz, root)]
		if h.Branch == nil && len(root) == 32 && sz <= e.realLimit() {
			// not built in this process (e.g. read back after a restart): search the universe
			for _, b := range e.Branches {
				if r := b.Root(sz); bytes.Equal(r[:], root) {
					h.Branch = b
					break
				}
			}
		}
	}
	return h
}

func treeKey(size uint64, root []byte) string {
	return strconv.FormatUint(size, 10) + "/" + hex.EncodeToString(root)
}

// Snapshot is the externally visible state of the witness.
type Snapshot struct {
	Logs    []string          // sorted GetLogs
	Cps     map[string][]byte // per configured log ID (+ the unknown ID): bytes, absent if NotFound
	ReadErr map[string]string // non-NotFound read errors
}

// Equal compares two snapshots byte for byte.
func (s Snapshot) Equal(o Snapshot) bool {
	if strings.Join(s.Logs, ",") != strings.Join(o.Logs, ",") || len(s.Cps) != len(o.Cps) {
		return false
	}
	for k, v := range s.Cps {
		w, ok := o.Cps[k]
		if !ok || string(v) != string(w) {
			return false
		}
	}
	return true
}

// Verdict classes.
const (
	VAccepted   = "accepted"
	VUnknownLog = "unknown_log"
	VNoSig      = "no_valid_signature"
	VOldTooBig  = "old_gt_size"
	VStale      = "stale"
	VMismatch   = "root_mismatch"
	VBadProof   = "invalid_proof"
	VOther      = "other_error"
)

// Classify maps an Update error to a verdict class.
func Classify(err error) string {
	switch {
	case err == nil:
		return VAccepted
	case errors.Is(err, witness.ErrUnknownLog):
		return VUnknownLog
	case errors.Is(err, witness.ErrNoValidSignature):
		return VNoSig
	case errors.Is(err, witness.ErrOldSizeInvalid):
		return VOldTooBig
	case errors.Is(err, witness.ErrCheckpointStale):
		return VStale
	case errors.Is(err, witness.ErrRootMismatch):
		return VMismatch
	case errors.Is(err, witness.ErrInvalidProof):
		return VBadProof
	}
	return VOther
}

// Req is a resolved request.
type Req struct {
	LogIdx  int
	LogID   string
	Old     uint64
	Cp      []byte
	Proof   [][]byte
	CpText  string  // text of the built checkpoint before mutation ("" for replay of unknown)
	CpSize  uint64  // size in the built checkpoint
	CpRoot  []byte  // root in the built checkpoint
	CpBr    *Branch // branch if root is a real tree
	Mutated bool    // bytes were edited after signing
	// Authentic: the harness knows the bytes are a well-formed note whose text was
	// signed by the key of the named log and whose origin is the named log's origin.
	Authentic bool
	// Plain: authentic, unmutated, three-line-or-extended checkpoint with 32-byte root.
	Plain bool
}

// Step is everything observed around one request.
type Step struct {
	Index   int
	Op      Op
	Req     Req
	Pre     Snapshot
	Post    Snapshot
	PreHeld Held // what the named log held before
	Out     []byte
	Err     error
	Verdict string
	Start   time.Time
	End     time.Time
	Fired   []string // injected faults that triggered during the request
	Trace   []string // storage call points the request reached
	// HTTP is set by targets that answer over HTTP.
	HTTPStatus int
	HTTPCType  string
	HTTPBody   []byte
}

// Target is the thing requests are sent to.
type Target interface {
	Update(ctx context.Context, logID string, old uint64, cp []byte, proof [][]byte, st *Step)
	GetCheckpoint(logID string) ([]byte, error)
	GetLogs() ([]string, error)
}

// WitnessTarget drives a real *witness.Witness. IP, if set, is the instrumented
// persistence the witness was built on.
type WitnessTarget struct {
	W  *witness.Witness
	IP *IPersist
	// P is the storage under the witness (for planting states a witness reaches by
	// itself over time, e.g. a cosignature made yesterday).
	P persistence.LogStatePersistence
	// DB is set when the storage is SQLite opened through the wrapped driver.
	DB *sql.DB
}

// Plant writes raw as the stored checkpoint of logID, bypassing the witness.
func (t WitnessTarget) Plant(logID string, raw []byte) error {
	if t.P == nil {
		return errors.New("target has no storage handle")
	}
	w, err := t.P.WriteOps(logID)
	if err != nil {
		return err
	}
	defer w.Close()
	_, _ = w.GetLatest()
	return w.Set(raw)
}

// Planter is implemented by targets whose storage can be written directly.
type Planter interface {
	Plant(logID string, raw []byte) error
}

// Armer is implemented by targets that can inject storage faults.
type Armer interface {
	Arm(fs []FaultSpec)
	Disarm() (fired []string, reached []string)
}

// Arm implements Armer.
func (t WitnessTarget) Arm(fs []FaultSpec) {
	var iface, drv []FaultSpec
	for _, f := range fs {
		if strings.HasPrefix(f.Point, "drv:") {
			drv = append(drv, f)
		} else {
			iface = append(iface, f)
		}
	}
	if t.IP != nil {
		t.IP.Arm(iface...)
	}
	if t.DB != nil {
		Drv.Arm(drv)
	}
}

// Disarm implements Armer.
func (t WitnessTarget) Disarm() ([]string, []string) {
	if t.IP == nil {
		return nil, nil
	}
	f := t.IP.FiredFaults()
	t.IP.mu.Lock()
	tr := append([]string{}, t.IP.Trace...)
	t.IP.mu.Unlock()
	t.IP.Disarm()
	if t.DB != nil {
		df, dt := Drv.Disarm()
		f = append(f, df...)
		tr = append(tr, dt...)
	}
	return f, tr
}

// NewFaultTarget builds a real witness on instrumented storage; SQL storage goes
// through the wrapped driver so that driver-level faults can be injected too.
func (e *Env) NewFaultTarget() (WitnessTarget, func(), error) {
	var p persistence.LogStatePersistence
	var db *sql.DB
	closer := func() {}
	if e.Case.Storage == "sql" {
		var err error
		db, err = OpenVerifDB(":memory:")
		if err != nil {
			return WitnessTarget{}, nil, err
		}
		p = psql.NewPersistence(db)
		closer = func() { _ = db.Close() }
	} else {
		p = inmemory.NewPersistence()
	}
	ip := NewIPersist(p)
	w, err := witness.New(witness.Opts{Persistence: ip, Signers: e.Signers(), KnownLogs: e.KnownLogs()})
	if err != nil {
		closer()
		return WitnessTarget{}, nil, err
	}
	return WitnessTarget{W: w, IP: ip, P: p, DB: db}, closer, nil
}

// Update implements Target.
func (t WitnessTarget) Update(ctx context.Context, logID string, old uint64, cp []byte, proof [][]byte, st *Step) {
	st.Out, st.Err = t.W.Update(ctx, logID, old, cp, proof)
	st.Verdict = Classify(st.Err)
}

// GetCheckpoint implements Target.
func (t WitnessTarget) GetCheckpoint(id string) ([]byte, error) { return t.W.GetCheckpoint(id) }

// GetLogs implements Target.
func (t WitnessTarget) GetLogs() ([]string, error) { return t.W.GetLogs() }

// TakeSnapshot reads the visible state.
func (e *Env) TakeSnapshot(t Target) Snapshot {
	s := Snapshot{Cps: map[string][]byte{}, ReadErr: map[string]string{}}
	logs, err := t.GetLogs()
	if err != nil {
		s.ReadErr["<logs>"] = err.Error()
	}
	s.Logs = append([]string{}, logs...)
	sort.Strings(s.Logs)
	ids := append(append([]string{}, e.LogIDs...), UnknownLogID)
	for _, op := range e.Case.Ops {
		if op.Log < 0 && op.IDAlt != nil {
			ids = append(ids, e.OpLogID(op))
		}
	}
	for _, id := range ids {
		b, err := t.GetCheckpoint(id)
		if err != nil {
			if status.Code(err) != codes.NotFound {
				s.ReadErr[id] = err.Error()
			}
			continue
		}
		s.Cps[id] = b
	}
	return s
}

// ---------------------------------------------------------------------------------
// Resolution of symbolic requests

func satAdd(base uint64, n int64) uint64 {
	if n >= 0 {
		r := base + uint64(n)
		if r < base {
			return ^uint64(0)
		}
		return r
	}
	d := uint64(-n)
	if d > base {
		return 0
	}
	return base - d
}

func (s SizeSpec) resolve(cur, sub uint64) uint64 {
	switch s.Rel {
	case "cur":
		return satAdd(cur, s.N)
	case "sub":
		return satAdd(sub, s.N)
	default:
		return satAdd(s.Abs, s.N)
	}
}

// MaxRealSize bounds the sizes for which real trees are computed (unless the
// universe has a filler region, where anything up to 2^63 is cheap).
const MaxRealSize = 1 << 18

func (e *Env) realLimit() uint64 {
	if e.Case.Filler > 0 {
		return 1 << 63
	}
	return MaxRealSize
}

// Resolve turns op into concrete request bytes given what the named log holds.
func (e *Env) Resolve(idx int, op Op, held Held) Req {
	if op.Cp.PadTo > 0 && op.Cp.Replay == 0 {
		probe := op
		probe.Cp.PadTo = 0
		r0 := e.Resolve(idx, probe, held)
		d := op.Cp.PadTo - len(r0.Cp)
		if d < 2 {
			return r0
		}
		probe.Cp.Ext = append(append([]string{}, op.Cp.Ext...), strings.Repeat("p", d-1))
		return e.Resolve(idx, probe, held)
	}
	r := Req{LogIdx: op.Log}
	if op.Log >= 0 && op.Log < len(e.LogIDs) {
		r.LogID = e.LogIDs[op.Log]
	} else {
		r.LogIdx = -1
		r.LogID = e.OpLogID(op)
	}
	var cur uint64
	if held.Present && held.ParseOK {
		cur = held.Size
	}
	curBranch := e.Branches[0]
	if held.Branch != nil {
		curBranch = held.Branch
	}

	cs := op.Cp
	if cs.Replay > 0 && cs.Replay-1 < len(e.sent) && cs.Replay-1 < idx {
		r.Cp = e.sent[cs.Replay-1]
		echoed := false
		if cs.ReplayOut && cs.Replay-1 < len(e.outs) && len(e.outs[cs.Replay-1]) > 0 {
			r.Cp = e.outs[cs.Replay-1]
			echoed = e.outOK[cs.Replay-1] && e.outLog[cs.Replay-1] == r.LogIdx && r.LogIdx >= 0
		}
		h := e.ScanCheckpoint(r.Cp)
		r.CpText, r.CpSize, r.CpRoot, r.CpBr = h.Text, h.Size, h.Root, h.Branch
		r.Mutated = true // authenticity unknown to the resolver; oracles treat it as arbitrary bytes
		if echoed && h.ParseOK {
			// the witness's own cosigned output for this very log: authentic by construction
			_, sigs, _ := SplitNote(r.Cp)
			r.Mutated, r.Authentic = false, true
			r.Plain = len(h.Root) == 32 && len(sigs) <= 90
		}
	} else {
		br := curBranch
		if cs.Branch >= 0 && cs.Branch < len(e.Branches) {
			br = e.Branches[cs.Branch]
		}
		size := cs.Size.resolve(cur, 0)
		if size < cs.MinSize {
			size = cs.MinSize
		}
		var root []byte
		if cs.Root == "" && size > e.realLimit() {
			size = e.realLimit() // keep "real tree" requests real: clamp instead of inventing a root
		}
		real := cs.Root == ""
		if real {
			h := br.Root(size)
			root = h[:]
			r.CpBr = br
		} else {
			h := sha256.Sum256([]byte(fmt.Sprintf("rand root %d %d %d", cs.RootTag, size, cs.Branch)))
			switch cs.Root {
			case "odd0":
				root = []byte{}
			case "odd5":
				root = h[:5]
			case "odd31":
				root = h[:31]
			case "odd33":
				root = append(h[:], 7)
			default:
				root = h[:]
			}
		}
		// origin
		origin := ""
		ownOrigin := ""
		if r.LogIdx >= 0 {
			ownOrigin = e.Case.Logs[r.LogIdx].Origin
		}
		switch {
		case cs.Origin >= 0 && cs.Origin < len(e.Case.Logs):
			origin = e.Case.Logs[cs.Origin].Origin
		case cs.Origin == -2:
			origin = cs.OriginLit
		default:
			origin = ownOrigin
			if r.LogIdx < 0 {
				origin = "unknown.example/log"
			}
		}
		if real && origin == ownOrigin {
			// remembered per origin (and only by requests addressed to that log), so that what one log's requests register never
			// influences how another log's symbolic requests resolve
			e.trees[origin+"\x00"+treeKey(size, root)] = br
		}
		text := CheckpointText(origin, size, root, cs.Ext)
		if cs.NonCanon != 0 {
			text = nonCanonical(text, cs.NonCanon)
		}
		r.CpText, r.CpSize, r.CpRoot = text, size, root

		// log signature line
		var logLine string
		var signKey *Key
		var signLabel string
		switch {
		case cs.Signer >= 0 && cs.Signer < len(e.LogKeys):
			signKey, signLabel = e.LogKeys[cs.Signer], e.Case.Logs[cs.Signer].KeyLabel
		case cs.Signer == -2:
			signKey, signLabel = NewKey("stranger", "stranger"), "stranger"
			if r.LogIdx >= 0 {
				// same name as the log's key, different material (of the same key type)
				if e.LogKeys[r.LogIdx].EC != nil {
					signKey = NewECDSAKey(e.LogKeys[r.LogIdx].Name, "stranger")
				} else {
					signKey = NewKey(e.LogKeys[r.LogIdx].Name, "stranger")
				}
			}
		case cs.Signer == -3:
			signKey = nil
		default:
			if r.LogIdx >= 0 {
				signKey, signLabel = e.LogKeys[r.LogIdx], e.Case.Logs[r.LogIdx].KeyLabel
			} else {
				signKey, signLabel = NewKey("unknownlog", "unknownlog"), "unknownlog"
			}
		}
		if signKey != nil {
			if cs.SignerName != "" {
				signKey = signKey.Renamed(cs.SignerName)
			}
			logLine = signKey.SigLine(text)
			e.markSigned(signLabel+"\x00"+signKey.Name, text)
		}
		var before, after []string
		for xi, x := range cs.Extra {
			var lines []string
			switch x.Kind {
			case "unknown":
				for j := 0; j < x.N; j++ {
					k := NewKey(fmt.Sprintf("junk%d-%d", xi, j), fmt.Sprintf("junk%d-%d", xi, j))
					lines = append(lines, k.SigLine(text))
				}
			case "otherlog":
				if x.Key >= 0 && x.Key < len(e.LogKeys) && x.Key != r.LogIdx {
					lines = append(lines, e.LogKeys[x.Key].SigLine(text))
					e.markSigned(e.Case.Logs[x.Key].KeyLabel+"\x00"+e.LogKeys[x.Key].Name, text)
				}
			case "duplog":
				if logLine != "" {
					lines = append(lines, logLine)
				}
			case "stalewit":
				if x.Key >= 0 && x.Key < len(e.WKeys) {
					// a fixed instant in the past: generated bytes must not depend on the clock
					ts := uint64(staleEpoch - x.TsAgo%1000000)
					lines = append(lines, e.WKeys[x.Key].K.CosigLine(text, ts))
				}
			case "stalewitlegacy":
				if x.Key >= 0 && x.Key < len(e.WKeys) {
					lines = append(lines, e.WKeys[x.Key].K.SigLine(text))
				}
			case "forgedwit":
				if x.Key >= 0 && x.Key < len(e.WKeys) {
					w := e.WKeys[x.Key]
					junk := sha256.Sum256([]byte(fmt.Sprintf("forged %d", xi)))
					sig := append(append([]byte{}, junk[:]...), junk[:]...)
					if w.Kind == WKCosig {
						sig = append(make([]byte, 8), sig...)
					}
					lines = append(lines, RawSigLine(w.K.Name, w.SigHash(), sig))
				}
			}
			if x.Before {
				before = append(before, lines...)
			} else {
				after = append(after, lines...)
			}
		}
		var all []string
		all = append(all, before...)
		if logLine != "" {
			all = append(all, logLine)
		}
		all = append(all, after...)
		r.Cp = Note(text, all...)
		if len(all) == 0 {
			// a note needs at least the separator; keep the bytes odd but deterministic
			r.Cp = []byte(text + "\n")
		}
		forged := false
		for _, x := range cs.Extra {
			if x.Kind == "forgedwit" {
				forged = true
			}
		}
		ownKeySigns := r.LogIdx >= 0 && signKey != nil && cs.SignerName == "" &&
			signKey.SameMaterial(e.LogKeys[r.LogIdx]) && signKey.Name == e.LogKeys[r.LogIdx].Name
		r.Authentic = ownKeySigns && origin == ownOrigin && origin != "" && noteTextOK(text)
		_ = forged
		if cs.Mut != nil {
			m := applyMutation(r.Cp, *cs.Mut)
			if string(m) != string(r.Cp) {
				r.Cp = m
				r.Mutated = true
				r.Authentic = false
			}
		}
		nsigs := len(all)
		// notes close to the note format's 1 MB limit cannot be cosigned and stay readable: outside every claim
		r.Plain = r.Authentic && !r.Mutated && len(root) == 32 && nsigs <= 90 && len(r.Cp) < 990000
	}
	for len(e.sent) <= idx {
		e.sent = append(e.sent, nil)
	}
	e.sent[idx] = r.Cp

	r.Old = op.Old.resolve(cur, r.CpSize)

	// proof
	ps := op.Proof
	pbr := r.CpBr
	if pbr == nil {
		pbr = curBranch
	}
	if ps.Branch != nil && *ps.Branch >= 0 && *ps.Branch < len(e.Branches) {
		pbr = e.Branches[*ps.Branch]
	}
	from, to := cur, r.CpSize
	if ps.From != nil {
		from = ps.From.resolve(cur, r.CpSize)
	}
	if ps.To != nil {
		to = ps.To.resolve(cur, r.CpSize)
	}
	var base [][]byte
	if from > 0 && from < to && to <= e.realLimit() {
		base = pbr.Consistency(from, to)
	} else {
		base = [][]byte{}
	}
	r.Proof = mangleProof(base, ps, e)
	return r
}

// nonCanonical rewrites the size and/or root line of a checkpoint text into another
// spelling of the same values that the checkpoint parser accepts: leading zeros on the
// size, and the two spare bits of a 32-byte root's last base64 quantum set.
func nonCanonical(text string, kind int) string {
	lines := strings.SplitN(text, "\n", 4)
	if len(lines) < 4 {
		return text
	}
	if kind&1 != 0 {
		lines[1] = "00" + lines[1]
	}
	if kind&2 != 0 && strings.HasSuffix(lines[2], "=") && !strings.HasSuffix(lines[2], "==") && len(lines[2]) >= 2 {
		const alpha = "ABCDEFGHIJKLMNOPQRSTUVWXYZabcdefghijklmnopqrstuvwxyz0123456789+/"
		i := len(lines[2]) - 2
		if v := strings.IndexByte(alpha, lines[2][i]); v >= 0 && v%4 == 0 {
			lines[2] = lines[2][:i] + string(alpha[v+1]) + "="
		}
	}
	return strings.Join(lines, "\n")
}

// noteTextOK reports whether text can be the text of a note (valid UTF-8 handled by
// the generator; here: ends in newline, no control characters).
func noteTextOK(text string) bool {
	if !strings.HasSuffix(text, "\n") {
		return false
	}
	for _, r := range text {
		if r < 0x20 && r != '\n' {
			return false
		}
		if r == 0xFFFD {
			return false
		}
	}
	return true
}

func cloneProof(p [][]byte) [][]byte {
	o := make([][]byte, len(p))
	for i := range p {
		o[i] = append([]byte{}, p[i]...)
	}
	return o
}

func mangleProof(base [][]byte, ps ProofSpec, e *Env) [][]byte {
	p := cloneProof(base)
	idx := func(n int) int {
		if n <= 0 {
			return 0
		}
		i := ps.I % n
		if i < 0 {
			i += n
		}
		return i
	}
	rnd := func(tag int) []byte {
		h := sha256.Sum256([]byte(fmt.Sprintf("rand proof node %d %d", ps.J, tag)))
		return h[:]
	}
	switch ps.Kind {
	case "", "correct":
		return p
	case "empty":
		return [][]byte{}
	case "nil":
		return nil
	case "drop":
		if len(p) == 0 {
			return p
		}
		i := idx(len(p))
		return append(p[:i], p[i+1:]...)
	case "dup":
		if len(p) == 0 {
			return [][]byte{rnd(0)}
		}
		i := idx(len(p))
		q := append([][]byte{}, p[:i+1]...)
		q = append(q, p[i])
		return append(q, p[i+1:]...)
	case "flip":
		if len(p) == 0 {
			return [][]byte{rnd(1)}
		}
		i := idx(len(p))
		p[i][ps.J&31] ^= 1 << (uint(ps.J>>5) & 7)
		return p
	case "extra":
		i := idx(len(p) + 1)
		q := append([][]byte{}, p[:i]...)
		q = append(q, rnd(2))
		return append(q, p[i:]...)
	case "swap":
		if len(p) < 2 {
			return append(p, rnd(3))
		}
		i := idx(len(p) - 1)
		p[i], p[i+1] = p[i+1], p[i]
		return p
	case "short":
		if len(p) == 0 {
			return [][]byte{rnd(4)[:31]}
		}
		i := idx(len(p))
		p[i] = p[i][:31]
		return p
	case "long":
		if len(p) == 0 {
			return [][]byte{append(rnd(5), 0)}
		}
		i := idx(len(p))
		p[i] = append(p[i], 0)
		return p
	case "random":
		n := ps.I
		if n < 0 {
			n = -n
		}
		n = n%8 + 1
		if ps.I == 0 {
			n = len(p)
			if n == 0 {
				n = 1
			}
		}
		q := make([][]byte, n)
		for i := range q {
			q[i] = rnd(10 + i)
		}
		return q
	case "many", "padded":
		// proofs longer than any valid one (a valid proof has < 64 nodes)
		n := []int{62, 63, 64, 65, 70, 100}[idx(6)]
		var q [][]byte
		if ps.Kind == "padded" {
			q = p
		}
		for i := 0; len(q) < n; i++ {
			q = append(q, rnd(100+i))
		}
		return q
	case "replay":
		if len(e.okProofs) == 0 {
			return [][]byte{rnd(6)}
		}
		return cloneProof(e.okProofs[idx(len(e.okProofs))])
	}
	return p
}

func applyMutation(b []byte, m Mutation) []byte {
	if len(b) == 0 {
		return b
	}
	o := append([]byte{}, b...)
	pos := func(n int) int {
		if n <= 0 {
			return 0
		}
		a := m.A % n
		if a < 0 {
			a += n
		}
		return a
	}
	lines := strings.SplitAfter(string(b), "\n")
	if len(lines) > 0 && lines[len(lines)-1] == "" {
		lines = lines[:len(lines)-1]
	}
	switch m.Kind {
	case "bitflip":
		i := pos(len(o))
		o[i] ^= 1 << (uint(m.B) & 7)
		return o
	case "truncate":
		return o[:pos(len(o))]
	case "dropline":
		i := pos(len(lines))
		return []byte(strings.Join(append(append([]string{}, lines[:i]...), lines[i+1:]...), ""))
	case "dupline":
		i := pos(len(lines))
		l := append(append([]string{}, lines[:i+1]...), lines[i])
		return []byte(strings.Join(append(l, lines[i+1:]...), ""))
	case "swaplines":
		if len(lines) < 2 {
			return o
		}
		i := pos(len(lines) - 1)
		l := append([]string{}, lines...)
		l[i], l[i+1] = l[i+1], l[i]
		return []byte(strings.Join(l, ""))
	case "setbyte":
		i := pos(len(o))
		o[i] = byte(m.B)
		return o
	case "insert":
		i := pos(len(o) + 1)
		return append(append(append([]byte{}, o[:i]...), byte(m.B)), o[i:]...)
	case "delete":
		i := pos(len(o))
		return append(o[:i], o[i+1:]...)
	case "sigbyte":
		// flip a bit inside the base64 of the last signature line: decode, flip, re-encode,
		// so the line stays well-formed and reaches signature verification.
		text, sigs, ok := SplitNote(b)
		if !ok || len(sigs) == 0 {
			return o
		}
		si := pos(len(sigs))
		s := sigs[si]
		raw := append([]byte{}, s.Sig...)
		raw[(m.B>>3)%len(raw)] ^= 1 << (uint(m.B) & 7)
		var ls []string
		for i, x := range sigs {
			if i == si {
				ls = append(ls, RawSigLine(s.Name, s.Hash, raw))
			} else {
				ls = append(ls, x.Line)
			}
		}
		return Note(text, ls...)
	case "signame":
		text, sigs, ok := SplitNote(b)
		if !ok || len(sigs) == 0 {
			return o
		}
		si := pos(len(sigs))
		var ls []string
		for i, x := range sigs {
			if i == si {
				ls = append(ls, RawSigLine(x.Name+"x", x.Hash, x.Sig))
			} else {
				ls = append(ls, x.Line)
			}
		}
		return Note(text, ls...)
	case "sighash":
		text, sigs, ok := SplitNote(b)
		if !ok || len(sigs) == 0 {
			return o
		}
		si := pos(len(sigs))
		var ls []string
		for i, x := range sigs {
			if i == si {
				ls = append(ls, RawSigLine(x.Name, x.Hash^uint32(1<<(uint(m.B)&31)), x.Sig))
			} else {
				ls = append(ls, x.Line)
			}
		}
		return Note(text, ls...)
	case "textbyte":
		// edit inside the text, keeping the signature block: reaches verification and
		// must fail it.
		text, sigs, ok := SplitNote(b)
		if !ok || len(text) == 0 {
			return o
		}
		tb := []byte(text)
		i := pos(len(tb))
		c := tb[i] ^ (1 << (uint(m.B) & 7))
		if c < 0x20 || c > 0x7e || c == '\n' {
			c = 'Z'
			if tb[i] == 'Z' {
				c = 'Y'
			}
		}
		tb[i] = c
		var ls []string
		for _, x := range sigs {
			ls = append(ls, x.Line)
		}
		return Note(string(tb), ls...)
	case "nosep":
		return []byte(strings.Replace(string(b), "\n\n", "\n", 1))
	case "crlf":
		return []byte(strings.ReplaceAll(string(b), "\n", "\r\n"))
	}
	return o
}

// ---------------------------------------------------------------------------------
// Execution

// RunOpts tunes execution.
type RunOpts struct {
	// AfterStep is called after each request with all observations.
	AfterStep func(e *Env, t Target, st *Step) error
	// NoSnapshots skips the full pre/post snapshots (only the named log is read).
	NoSnapshots bool
	// AfterUpdate is called as soon as the request returned, before any further read.
	AfterUpdate func(e *Env, t Target, st *Step) error
}

// Exec plays the case's ops against t and returns the observations.
func (e *Env) Exec(t Target, o RunOpts) ([]*Step, error) {
	var steps []*Step
	for i, op := range e.Case.Ops {
		st := &Step{Index: i, Op: op}
		id := e.OpLogID(op)
		if !o.NoSnapshots {
			st.Pre = e.TakeSnapshot(t)
			if b, ok := st.Pre.Cps[id]; ok {
				st.PreHeld = e.ScanCheckpoint(b)
			}
		} else {
			if b, err := t.GetCheckpoint(id); err == nil {
				st.PreHeld = e.ScanCheckpoint(b)
			}
		}
		st.Req = e.Resolve(i, op, st.PreHeld)
		if op.Kind == "plant" {
			pl, ok := t.(Planter)
			if !ok || st.Req.LogIdx < 0 {
				continue
			}
			text, sigs, ok := SplitNote(st.Req.Cp)
			if !ok {
				continue
			}
			var lines []string
			for _, sg := range sigs {
				lines = append(lines, sg.Line)
			}
			for _, wk := range e.WKeys {
				if wk.Kind == WKCosig {
					lines = append(lines, wk.K.CosigLine(text, uint64(staleEpoch-op.TsAgo%1000000)))
				} else {
					lines = append(lines, wk.K.SigLine(text))
				}
			}
			planted := Note(text, lines...)
			if err := pl.Plant(st.Req.LogID, planted); err != nil {
				return steps, fmt.Errorf("harness: plant failed: %v", err)
			}
			for len(e.outs) <= i {
				e.outs = append(e.outs, nil)
			}
			e.outs[i] = planted // so that a later op can replay exactly the stored bytes
			e.noteOut(i, true, st.Req.LogIdx)
			st.Verdict = "planted"
			steps = append(steps, st)
			continue
		}
		armer, _ := t.(Armer)
		if armer != nil {
			armer.Arm(op.Faults)
		}
		ctx, cancelReq := context.WithCancel(context.Background())
		switch op.DeadCtx {
		case "cancelled":
			cancelReq()
		case "expired":
			cancelReq()
			ctx, cancelReq = context.WithDeadline(context.Background(), time.Now().Add(-time.Second))
		}
		if wt, ok := t.(WitnessTarget); ok && wt.IP != nil {
			wt.IP.CancelRequest = cancelReq
		}
		st.Start = time.Now()
		func() {
			// a panic in the code under test is an observation (verdict "panic"), not a
			// crash of the harness: every oracle then sees a verdict it does not expect
			defer func() {
				if p := recover(); p != nil {
					st.Out, st.Err, st.Verdict = nil, fmt.Errorf("PANIC: %v", p), "panic"
				}
			}()
			t.Update(ctx, st.Req.LogID, st.Req.Old, st.Req.Cp, st.Req.Proof, st)
		}()
		st.End = time.Now()
		if armer != nil {
			st.Fired, st.Trace = armer.Disarm()
		}
		cancelReq()
		for _, f := range st.Fired {
			if strings.HasPrefix(f, "cancelctx@") {
				time.Sleep(30 * time.Millisecond) // let anything the request abandoned finish before the state is read
				break
			}
		}
		if o.AfterUpdate != nil {
			if err := o.AfterUpdate(e, t, st); err != nil {
				steps = append(steps, st)
				return steps, fmt.Errorf("step %d (%s): %w", i, op.Note, err)
			}
		}
		if st.Verdict == VAccepted {
			e.okProofs = append(e.okProofs, cloneProof(st.Req.Proof))
		}
		for len(e.outs) <= i {
			e.outs = append(e.outs, nil)
		}
		e.outs[i] = st.Out
		e.noteOut(i, st.Verdict == VAccepted && len(st.Out) > 0, st.Req.LogIdx)
		if !o.NoSnapshots {
			st.Post = e.TakeSnapshot(t)
		}
		steps = append(steps, st)
		if o.AfterStep != nil {
			if err := o.AfterStep(e, t, st); err != nil {
				return steps, fmt.Errorf("step %d (%s): %w", i, op.Note, err)
			}
		}
	}
	return steps, nil
}

// NewWitness builds a real witness for the case on fresh storage.
func (e *Env) NewWitness() (*witness.Witness, persistence.LogStatePersistence, func(), error) {
	p, closer := NewPersistence(e.Case.Storage)
	w, err := witness.New(witness.Opts{Persistence: p, Signers: e.Signers(), KnownLogs: e.KnownLogs()})
	if err != nil {
		closer()
		return nil, nil, nil, err
	}
	return w, p, closer, nil
}

// NewPlainTarget builds a real witness on fresh storage with a storage handle.
func (e *Env) NewPlainTarget() (WitnessTarget, func(), error) {
	w, p, closer, err := e.NewWitness()
	if err != nil {
		return WitnessTarget{}, nil, err
	}
	return WitnessTarget{W: w, P: p}, closer, nil
}

// NewInstrumentedWitness builds a real witness on fresh storage wrapped by IPersist.
func (e *Env) NewInstrumentedWitness() (WitnessTarget, func(), error) {
	p, closer := NewPersistence(e.Case.Storage)
	ip := NewIPersist(p)
	w, err := witness.New(witness.Opts{Persistence: ip, Signers: e.Signers(), KnownLogs: e.KnownLogs()})
	if err != nil {
		closer()
		return WitnessTarget{}, nil, err
	}
	return WitnessTarget{W: w, IP: ip, P: p}, closer, nil
}
