//go:build verif

package vlib

import (
	"context"
	"database/sql"
	"errors"
	"fmt"
	"io"
	"io/fs"
	"sync"
	"syscall"
	"time"

	"github.com/transparency-dev/witness/internal/persistence"
	"google.golang.org/grpc/codes"
	"google.golang.org/grpc/status"
)

// Storage call points of the LogStatePersistence interface.
const (
	PInit     = "Init"
	PLogs     = "Logs"
	PReadOps  = "ReadOps"
	PReadGet  = "Read.GetLatest"
	PWriteOps = "WriteOps"
	PWriteGet = "Write.GetLatest"
	PWriteSet = "Write.Set"
	// PWriteSetDone is a yield-only point right after the store's Set has returned (the
	// write has taken effect but the caller has not seen the return yet).
	PWriteSetDone = "Write.Set:done"
	PWriteClos    = "Write.Close"
)

// FaultSpec asks for one storage call of a request to fail.
type FaultSpec struct {
	Point string `json:"point"`
	Code  string `json:"code,omitempty"` // plain | unavailable | internal | deadline | enoent | norows | eof | ctxdeadline | cancelctx (no error: the request's context is cancelled at this point)
	Nth   int    `json:"nth,omitempty"`  // which occurrence within the request (0 = first)
}

// InjectedError builds the error for a fault.
func (f FaultSpec) InjectedError() error {
	msg := "verif: injected storage fault at " + f.Point
	switch f.Code {
	case "unavailable":
		return status.Error(codes.Unavailable, msg)
	case "internal":
		return status.Error(codes.Internal, msg)
	case "deadline":
		return status.Error(codes.DeadlineExceeded, msg)
	case "enoent":
		// the database file has gone (unmounted volume): a failed read that "looks like" absence
		return fmt.Errorf("%s: %w", msg, &fs.PathError{Op: "open", Path: "/var/lib/witness/witness.db", Err: syscall.ENOENT})
	case "norows":
		return fmt.Errorf("%s: %w", msg, sql.ErrNoRows)
	case "eof":
		return fmt.Errorf("%s: %w", msg, io.ErrUnexpectedEOF)
	case "ctxdeadline":
		return fmt.Errorf("%s: %w", msg, context.DeadlineExceeded)
	}
	return errors.New(msg)
}

// IPersist wraps a LogStatePersistence with fault injection, call tracing, handle
// accounting and an optional yield hook (used by the C05 scheduler).
type IPersist struct {
	Inner persistence.LogStatePersistence

	mu         sync.Mutex
	armed      []FaultSpec
	seen       map[string]int
	Fired      []string // faults that actually triggered
	Trace      []string // call points reached since the last Reset
	OpenWrites int      // WriteOps handles opened and not yet closed
	// Yield, if set, is called before every storage call (outside the mutex).
	Yield func(point, logID string)
	// CancelRequest, if set, cancels the context of the request being served (used by the
	// "cancelctx" fault code).
	CancelRequest func()
	// After, if set, is called after every forwarded storage call returned.
	After func(point, logID string, err error)
}

// NewIPersist wraps inner.
func NewIPersist(inner persistence.LogStatePersistence) *IPersist {
	return &IPersist{Inner: inner, seen: map[string]int{}}
}

// Arm sets the faults for the next request and clears the trace.
func (p *IPersist) Arm(fs ...FaultSpec) {
	p.mu.Lock()
	p.armed = append([]FaultSpec{}, fs...)
	p.seen = map[string]int{}
	p.Fired = nil
	p.Trace = nil
	p.mu.Unlock()
}

// Disarm removes all faults.
func (p *IPersist) Disarm() {
	p.mu.Lock()
	p.armed = nil
	p.mu.Unlock()
}

// FiredFaults returns the faults that triggered since Arm.
func (p *IPersist) FiredFaults() []string {
	p.mu.Lock()
	defer p.mu.Unlock()
	return append([]string{}, p.Fired...)
}

// Reached reports whether a call point was reached since Arm.
func (p *IPersist) Reached(point string) bool {
	p.mu.Lock()
	defer p.mu.Unlock()
	for _, t := range p.Trace {
		if t == point {
			return true
		}
	}
	return false
}

// Open returns the number of write handles currently open.
func (p *IPersist) Open() int {
	p.mu.Lock()
	defer p.mu.Unlock()
	return p.OpenWrites
}

func (p *IPersist) at(point, logID string) error {
	if y := p.Yield; y != nil {
		y(point, logID)
	}
	p.mu.Lock()
	defer p.mu.Unlock()
	p.Trace = append(p.Trace, point)
	n := p.seen[point]
	p.seen[point] = n + 1
	for _, f := range p.armed {
		if f.Point == point && f.Nth == n {
			if f.Code == "cancelctx" {
				// not a storage error: the caller's context ends while the storage call is
				// in flight; the call itself goes on
				p.Fired = append(p.Fired, fmt.Sprintf("cancelctx@%s#%d", point, n))
				if c := p.CancelRequest; c != nil {
					c()
					p.mu.Unlock()
					time.Sleep(5 * time.Millisecond)
					p.mu.Lock()
				}
				return nil
			}
			p.Fired = append(p.Fired, fmt.Sprintf("%s#%d", point, n))
			return f.InjectedError()
		}
	}
	return nil
}

// Init implements LogStatePersistence.
func (p *IPersist) Init() error {
	if err := p.at(PInit, ""); err != nil {
		return err
	}
	return p.Inner.Init()
}

// Logs implements LogStatePersistence.
func (p *IPersist) Logs() ([]string, error) {
	if err := p.at(PLogs, ""); err != nil {
		return nil, err
	}
	return p.Inner.Logs()
}

// ReadOps implements LogStatePersistence.
func (p *IPersist) ReadOps(logID string) (persistence.LogStateReadOps, error) {
	if err := p.at(PReadOps, logID); err != nil {
		return nil, err
	}
	r, err := p.Inner.ReadOps(logID)
	if err != nil {
		return nil, err
	}
	return &iReader{p: p, id: logID, inner: r}, nil
}

// WriteOps implements LogStatePersistence.
func (p *IPersist) WriteOps(logID string) (persistence.LogStateWriteOps, error) {
	if err := p.at(PWriteOps, logID); err != nil {
		return nil, err
	}
	w, err := p.Inner.WriteOps(logID)
	if a := p.After; a != nil {
		a(PWriteOps, logID, err)
	}
	if err != nil {
		return nil, err
	}
	p.mu.Lock()
	p.OpenWrites++
	p.mu.Unlock()
	return &iWriter{p: p, id: logID, inner: w}, nil
}

type iReader struct {
	p     *IPersist
	id    string
	inner persistence.LogStateReadOps
}

func (r *iReader) GetLatest() ([]byte, error) {
	if err := r.p.at(PReadGet, r.id); err != nil {
		return nil, err
	}
	return r.inner.GetLatest()
}

type iWriter struct {
	p      *IPersist
	id     string
	inner  persistence.LogStateWriteOps
	closed bool
}

func (w *iWriter) GetLatest() ([]byte, error) {
	if err := w.p.at(PWriteGet, w.id); err != nil {
		return nil, err
	}
	// tell the driver wrapper that whatever it is asked to do now serves the read of the
	// previous checkpoint (so that a driver fault here is known to be a read fault
	// whatever statements the store uses)
	Drv.SetContext(PWriteGet)
	defer Drv.SetContext("")
	return w.inner.GetLatest()
}

func (w *iWriter) Set(c []byte) error {
	// an injected Set fault does not reach the store: "failed before taking effect"
	if err := w.p.at(PWriteSet, w.id); err != nil {
		return err
	}
	err := w.inner.Set(c)
	if y := w.p.Yield; y != nil {
		y(PWriteSetDone, w.id)
	}
	return err
}

func (w *iWriter) Close() error {
	ferr := w.p.at(PWriteClos, w.id)
	// Close is always forwarded so that an injected Close error does not itself leak the
	// underlying transaction.
	err := w.inner.Close()
	if a := w.p.After; a != nil {
		a(PWriteClos, w.id, err)
	}
	w.p.mu.Lock()
	if !w.closed {
		w.closed = true
		w.p.OpenWrites--
	}
	w.p.mu.Unlock()
	if ferr != nil {
		return ferr
	}
	return err
}
