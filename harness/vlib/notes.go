//go:build verif

package vlib

import (
	"bytes"
	"crypto/ecdsa"
	"crypto/ed25519"
	"crypto/elliptic"
	"crypto/sha256"
	"crypto/x509"
	"encoding/base64"
	"encoding/binary"
	"fmt"
	"math/big"
	"strings"
	"sync"

	f_note "github.com/transparency-dev/formats/note"
	"golang.org/x/mod/sumdb/note"
)

const (
	algEd25519 = 1
	algCosigV1 = 4
)

// Key is a deterministic note key: Ed25519 (the default) or ECDSA P-256 (the key type of
// several shipped logs; verified by formats/note.NewECDSAVerifier).
type Key struct {
	Name string
	Priv ed25519.PrivateKey
	Pub  ed25519.PublicKey
	EC   *ecdsa.PrivateKey // non-nil: this is an ECDSA key
	ecDER []byte
}

// zeroReader makes ecdsa.SignASN1 deterministic (its nonce is derived from the key, the
// digest and this "entropy").
type zeroReader struct{}

func (zeroReader) Read(p []byte) (int, error) {
	for i := range p {
		p[i] = 0
	}
	return len(p), nil
}

// NewECDSAKey derives an ECDSA P-256 note key for (name, label) deterministically.
func NewECDSAKey(name, label string) *Key {
	keyMu.Lock()
	defer keyMu.Unlock()
	id := name + "\x00ecdsa\x00" + label
	if k, ok := keyTab[id]; ok {
		return k
	}
	seed := sha256.Sum256([]byte("verif ecdsa key seed " + label))
	curve := elliptic.P256()
	d := new(big.Int).SetBytes(seed[:])
	n1 := new(big.Int).Sub(curve.Params().N, big.NewInt(1))
	d.Mod(d, n1)
	d.Add(d, big.NewInt(1))
	priv := &ecdsa.PrivateKey{D: d}
	priv.PublicKey.Curve = curve
	priv.PublicKey.X, priv.PublicKey.Y = curve.ScalarBaseMult(d.Bytes())
	der, err := x509.MarshalPKIXPublicKey(&priv.PublicKey)
	if err != nil {
		panic(err)
	}
	k := &Key{Name: name, EC: priv, ecDER: der}
	keyTab[id] = k
	return k
}

var (
	keyMu  sync.Mutex
	keyTab = map[string]*Key{}
)

// NewKey derives the key for (name, seed label) deterministically.
func NewKey(name, label string) *Key {
	keyMu.Lock()
	defer keyMu.Unlock()
	id := name + "\x00" + label
	if k, ok := keyTab[id]; ok {
		return k
	}
	seed := sha256.Sum256([]byte("verif key seed " + label))
	priv := ed25519.NewKeyFromSeed(seed[:])
	k := &Key{Name: name, Priv: priv, Pub: priv.Public().(ed25519.PublicKey)}
	keyTab[id] = k
	return k
}

// Renamed returns the same key material under another name.
func (k *Key) Renamed(name string) *Key {
	return &Key{Name: name, Priv: k.Priv, Pub: k.Pub, EC: k.EC, ecDER: k.ecDER}
}

// SameMaterial reports whether two keys are the same key (whatever their names).
func (k *Key) SameMaterial(o *Key) bool {
	if (k.EC == nil) != (o.EC == nil) {
		return false
	}
	if k.EC != nil {
		return bytes.Equal(k.ecDER, o.ecDER)
	}
	return bytes.Equal(k.Pub, o.Pub)
}

func keyHash(name string, alg byte, pub []byte) uint32 {
	h := sha256.New()
	h.Write([]byte(name))
	h.Write([]byte("\n"))
	h.Write([]byte{alg})
	h.Write(pub)
	return binary.BigEndian.Uint32(h.Sum(nil)[:4])
}

// Hash is the key hash under which the key's plain signature lines appear.
func (k *Key) Hash() uint32 {
	if k.EC != nil {
		h := sha256.Sum256(k.ecDER)
		return binary.BigEndian.Uint32(h[:4])
	}
	return keyHash(k.Name, algEd25519, k.Pub)
}

// CosigHash is the cosignature/v1 key hash.
func (k *Key) CosigHash() uint32 { return keyHash(k.Name, algCosigV1, k.Pub) }

// VKey is the note verifier key string.
func (k *Key) VKey() string {
	if k.EC != nil {
		return fmt.Sprintf("%s+%08x+%s", k.Name, k.Hash(), base64.StdEncoding.EncodeToString(append([]byte{2}, k.ecDER...)))
	}
	return fmt.Sprintf("%s+%08x+%s", k.Name, k.Hash(), base64.StdEncoding.EncodeToString(append([]byte{algEd25519}, k.Pub...)))
}

// SKey is the note signer key string.
func (k *Key) SKey() string {
	return fmt.Sprintf("PRIVATE+KEY+%s+%08x+%s", k.Name, k.Hash(), base64.StdEncoding.EncodeToString(append([]byte{algEd25519}, k.Priv.Seed()...)))
}

// Verifier is the library verifier for this key, obtained the way the witness
// configuration obtains it (formats/note.NewVerifier dispatches on the key type).
func (k *Key) Verifier() note.Verifier {
	v, err := f_note.NewVerifier(k.VKey())
	if err != nil {
		panic(err)
	}
	return v
}

// Signer is the library legacy signer for this key.
func (k *Key) Signer() note.Signer {
	s, err := note.NewSigner(k.SKey())
	if err != nil {
		panic(err)
	}
	return s
}

// CosigSigner is the library cosignature/v1 signer for this key.
func (k *Key) CosigSigner() *f_note.Signer {
	s, err := f_note.NewSignerForCosignatureV1(k.SKey())
	if err != nil {
		panic(err)
	}
	return s
}

// SigLine builds a plain signature line over text with the harness's own code.
func (k *Key) SigLine(text string) string {
	if k.EC != nil {
		d := sha256.Sum256([]byte(text))
		sig, err := ecdsa.SignASN1(zeroReader{}, k.EC, d[:])
		if err != nil {
			panic(err)
		}
		return RawSigLine(k.Name, k.Hash(), sig)
	}
	sig := ed25519.Sign(k.Priv, []byte(text))
	var hb [4]byte
	binary.BigEndian.PutUint32(hb[:], k.Hash())
	return "— " + k.Name + " " + base64.StdEncoding.EncodeToString(append(hb[:], sig...)) + "\n"
}

// CosigLine builds a cosignature/v1 line with a chosen timestamp.
func (k *Key) CosigLine(text string, ts uint64) string {
	msg := fmt.Sprintf("cosignature/v1\ntime %d\n%s", ts, text)
	sig := ed25519.Sign(k.Priv, []byte(msg))
	var hb [4]byte
	binary.BigEndian.PutUint32(hb[:], k.CosigHash())
	raw := append(hb[:], binary.BigEndian.AppendUint64(nil, ts)...)
	raw = append(raw, sig...)
	return "— " + k.Name + " " + base64.StdEncoding.EncodeToString(raw) + "\n"
}

// RawSigLine builds a syntactically valid signature line with chosen hash and bytes.
func RawSigLine(name string, hash uint32, sig []byte) string {
	var hb [4]byte
	binary.BigEndian.PutUint32(hb[:], hash)
	return "— " + name + " " + base64.StdEncoding.EncodeToString(append(hb[:], sig...)) + "\n"
}

// CheckpointText builds the three checkpoint lines plus extension lines.
func CheckpointText(origin string, size uint64, root []byte, ext []string) string {
	var b strings.Builder
	b.WriteString(origin)
	b.WriteByte('\n')
	fmt.Fprintf(&b, "%d\n", size)
	b.WriteString(base64.StdEncoding.EncodeToString(root))
	b.WriteByte('\n')
	for _, e := range ext {
		b.WriteString(e)
		b.WriteByte('\n')
	}
	return b.String()
}

// Note assembles text + blank line + signature lines.
func Note(text string, sigLines ...string) []byte {
	var b bytes.Buffer
	b.WriteString(text)
	b.WriteByte('\n')
	for _, l := range sigLines {
		b.WriteString(l)
	}
	return b.Bytes()
}

// SigEntry is one parsed signature line.
type SigEntry struct {
	Name string
	Hash uint32
	Sig  []byte // after the 4 hash bytes
	Line string
}

// SplitNote is the harness's own note scanner (independent of x/mod): it returns the
// text and the signature lines, or ok=false if the bytes do not have note shape.
func SplitNote(msg []byte) (text string, sigs []SigEntry, ok bool) {
	i := bytes.LastIndex(msg, []byte("\n\n"))
	if i < 0 {
		return "", nil, false
	}
	text = string(msg[:i+1])
	block := string(msg[i+2:])
	if block == "" || !strings.HasSuffix(block, "\n") {
		return "", nil, false
	}
	for _, l := range strings.Split(strings.TrimSuffix(block, "\n"), "\n") {
		if !strings.HasPrefix(l, "— ") {
			return "", nil, false
		}
		rest := strings.TrimPrefix(l, "— ")
		sp := strings.Index(rest, " ")
		if sp < 0 {
			return "", nil, false
		}
		raw, err := base64.StdEncoding.DecodeString(rest[sp+1:])
		if err != nil || len(raw) < 5 {
			return "", nil, false
		}
		sigs = append(sigs, SigEntry{Name: rest[:sp], Hash: binary.BigEndian.Uint32(raw[:4]), Sig: raw[4:], Line: l + "\n"})
	}
	return text, sigs, true
}

// VerifyPlain checks a plain signature entry under k with the harness's code.
func (k *Key) VerifyPlain(text string, s SigEntry) bool {
	if k.EC != nil {
		d := sha256.Sum256([]byte(text))
		return s.Name == k.Name && s.Hash == k.Hash() && ecdsa.VerifyASN1(&k.EC.PublicKey, d[:], s.Sig)
	}
	return s.Name == k.Name && s.Hash == k.Hash() && len(s.Sig) == ed25519.SignatureSize && ed25519.Verify(k.Pub, []byte(text), s.Sig)
}

// VerifyCosig checks a cosignature/v1 entry under k and returns its timestamp.
func (k *Key) VerifyCosig(text string, s SigEntry) (uint64, bool) {
	if s.Name != k.Name || s.Hash != k.CosigHash() || len(s.Sig) != 8+ed25519.SignatureSize {
		return 0, false
	}
	ts := binary.BigEndian.Uint64(s.Sig[:8])
	msg := fmt.Sprintf("cosignature/v1\ntime %d\n%s", ts, text)
	return ts, ed25519.Verify(k.Pub, []byte(msg), s.Sig[8:])
}

// WitnessKeyKind says how a witness key signs.
type WitnessKeyKind int

const (
	WKLegacy WitnessKeyKind = iota
	WKCosig
)

// WitnessKey is one configured witness signing identity.
type WitnessKey struct {
	K    *Key
	Kind WitnessKeyKind
}

// Signer returns the library signer the witness is configured with.
func (w WitnessKey) Signer() note.Signer {
	if w.Kind == WKCosig {
		return w.K.CosigSigner()
	}
	return w.K.Signer()
}

// SigHash is the key hash under which this identity's lines appear.
func (w WitnessKey) SigHash() uint32 {
	if w.Kind == WKCosig {
		return w.K.CosigHash()
	}
	return w.K.Hash()
}

// Verifier returns the library verifier matching Signer.
func (w WitnessKey) Verifier() note.Verifier {
	if w.Kind == WKCosig {
		return w.K.CosigSigner().Verifier()
	}
	return w.K.Verifier()
}
