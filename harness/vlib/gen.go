//go:build verif

package vlib

import (
	"fmt"
	"math/bits"

	"pgregory.net/rapid"
)

// Profile steers the history generator for one property.
type Profile struct {
	Prop        string
	MinLogs     int
	MaxLogs     int
	MinOps      int
	MaxOps      int
	Storages    []string
	SharedKeys  bool           // some logs share key material
	Weights     map[string]int // op class -> weight
	AllowZero   bool           // allow size-0 checkpoints to be produced by honest ops
	MaxJump     int            // largest growth step
	WKeySets    [][]WKSpec     // choices of witness key sets; nil = production set
	OtherLogPct int            // percentage of ops aimed at logs other than log 0
	Decorate    int            // percentage of honest ops that get extension lines / extra sigs
	MaxJunkSigs int            // bound on "unknown" extra signature lines per op
	FaultPct    int            // percentage of ops that get an injected storage fault
	NoReplay    bool           // never reuse bytes/proofs of other ops (needed for isolation comparisons)
	PlantPct    int            // percentage of refresh ops preceded by planting a day-old cosignature
	DrvFaults   bool           // faults may also hit SQL driver calls
	DeadCtxPct  int            // percentage of update requests that arrive with a context that has already ended (cancelled, or past its deadline)
	CancelPct   int            // percentage of injected faults that are "the request's context is cancelled during a storage call" instead of an error
	MixOldPct   int            // percentage of ops (of any class) whose old size is replaced by a hostile one: requests that fall under two rules at once
	ECDSAPct    int            // percentage of logs whose key is ECDSA P-256 (several shipped logs use such keys)
	NonCanonPct int            // percentage of log-signed checkpoints written non-canonically (leading zeros in the size, spare base64 bits set)
}

// ProdWKeys is the key set cmd/omniwitness configures: legacy + cosignature/v1 with
// the same key material and name.
var ProdWKeys = []WKSpec{{Label: "wit", Name: "witness.example/w", Cosig: false}, {Label: "wit", Name: "witness.example/w", Cosig: true}}

// LegacyWKeys is a timestamp-free (deterministic) witness.
var LegacyWKeys = []WKSpec{{Label: "wit", Name: "witness.example/w", Cosig: false}}

var origins = []string{"example.com/log", "example.com/log2", "example.com/log/sub", "example.com", "rekor.example - 123", "лог.example/α", "a", "example.com/log ", "example.com/firmware%20log/1", "100%s.example/%d"}

// Uniform draws an (almost exactly) uniform integer in [0,n). rapid's integer
// generators deliberately favour small values, which distorts percentages and class
// weights; Bool is unbiased, so the number is assembled from Bool draws. It still
// shrinks towards 0.
func Uniform(t *rapid.T, n int, label string) int {
	if n <= 1 {
		return 0
	}
	nb := bits.Len(uint(n-1)) + 4
	bs := rapid.SliceOfN(rapid.Bool(), nb, nb).Draw(t, label)
	v := 0
	for _, b := range bs {
		v <<= 1
		if b {
			v |= 1
		}
	}
	return v % n
}

// Pct is true with probability p/100.
func Pct(t *rapid.T, p int, label string) bool {
	if p <= 0 {
		return false
	}
	return Uniform(t, 100, label) >= 100-p
}

func weighted(t *rapid.T, w map[string]int, label string) string {
	keys := make([]string, 0, len(w))
	total := 0
	// deterministic order
	for _, k := range opClassOrder {
		if w[k] > 0 {
			keys = append(keys, k)
			total += w[k]
		}
	}
	if total == 0 {
		return "grow"
	}
	x := Uniform(t, total, label)
	for _, k := range keys {
		if x < w[k] {
			return k
		}
		x -= w[k]
	}
	return keys[len(keys)-1]
}

var opClassOrder = []string{"grow", "refresh", "fork", "wrongold", "badproof", "replay", "garbage", "unkroot", "oddroot", "wrongkey", "wrongorigin", "unknownlog", "smaller", "decorated", "zero", "mismatch", "tofufork", "echo"}

// DefaultWeights is the adversarial mix used by most history properties.
var DefaultWeights = map[string]int{"grow": 30, "refresh": 8, "fork": 12, "wrongold": 8, "badproof": 12, "replay": 4, "garbage": 5, "unkroot": 3, "oddroot": 1, "wrongkey": 4, "wrongorigin": 3, "unknownlog": 2, "smaller": 4, "decorated": 4, "mismatch": 5, "echo": 4}

func genDelta(t *rapid.T, maxJump int, label string) int64 {
	switch rapid.IntRange(0, 9).Draw(t, label+"_cls") {
	case 0, 1, 2, 3, 4, 5:
		return int64(rapid.IntRange(1, 8).Draw(t, label))
	case 6, 7:
		return int64(rapid.IntRange(1, 40).Draw(t, label))
	case 8:
		return int64(rapid.IntRange(1, 300).Draw(t, label))
	default:
		if maxJump < 1 {
			maxJump = 1
		}
		return int64(rapid.IntRange(1, maxJump).Draw(t, label))
	}
}

var proofMangles = []string{"empty", "drop", "dup", "flip", "extra", "swap", "short", "long", "random", "replay", "othersizes", "otherbranch", "nil", "many", "padded"}

func genBadProof(t *rapid.T, nbranches int, noReplay ...bool) ProofSpec {
	k := rapid.SampledFrom(proofMangles).Draw(t, "mangle")
	if len(noReplay) > 0 && noReplay[0] && k == "replay" {
		k = "random"
	}
	ps := ProofSpec{Kind: k, I: rapid.IntRange(0, 12).Draw(t, "pi"), J: rapid.IntRange(0, 255).Draw(t, "pj")}
	switch k {
	case "othersizes":
		ps.Kind = "correct"
		switch rapid.IntRange(0, 3).Draw(t, "os") {
		case 0:
			ps.From = &SizeSpec{Rel: "cur", N: -1}
		case 1:
			ps.From = &SizeSpec{Rel: "cur", N: 1}
		case 2:
			ps.To = &SizeSpec{Rel: "sub", N: 1}
		default:
			ps.To = &SizeSpec{Rel: "sub", N: -1}
		}
	case "otherbranch":
		ps.Kind = "correct"
		b := rapid.IntRange(0, nbranches-1).Draw(t, "pbranch")
		ps.Branch = &b
	}
	return ps
}

func genExtra(t *rapid.T, p Profile, nlogs, nwk int) ([]string, []ExtraSig) {
	var ext []string
	var extra []ExtraSig
	for i, n := 0, rapid.IntRange(0, 3).Draw(t, "next"); i < n; i++ {
		ext = append(ext, rapid.SampledFrom([]string{"ext line", "1234", "AAAA", "— not a sig", "x y z", "é", "100% of a%2Fb %s %d %v %%", "Timestamp: 1700000000", "{\"json\": [1, 2]}", "tab\there"}).Draw(t, "ext"))
	}
	for i, n := 0, rapid.IntRange(0, 3).Draw(t, "nextra"); i < n; i++ {
		x := ExtraSig{Kind: rapid.SampledFrom([]string{"unknown", "unknown", "otherlog", "duplog", "stalewit", "stalewitlegacy", "forgedwit"}).Draw(t, "xkind"), Before: rapid.Bool().Draw(t, "xbefore")}
		switch x.Kind {
		case "unknown":
			mj := p.MaxJunkSigs
			if mj <= 0 {
				mj = 5
			}
			if mj > 20 {
				// aim at the note format's limit of 100 signature lines
				x.N = rapid.SampledFrom([]int{1, 2, 3, 10, 50, 95, 96, 97, 98, 99, 100, 101}).Draw(t, "xn")
				if x.N > mj {
					x.N = mj
				}
			} else {
				x.N = rapid.IntRange(1, mj).Draw(t, "xn")
			}
		case "otherlog":
			x.Key = rapid.IntRange(0, nlogs-1).Draw(t, "xkey")
		case "stalewit", "stalewitlegacy", "forgedwit":
			x.Key = rapid.IntRange(0, nwk-1).Draw(t, "xwkey")
			x.TsAgo = int64(rapid.SampledFrom([]int{86400, 3600, 1, 100000000}).Draw(t, "xago"))
		}
		extra = append(extra, x)
	}
	return ext, extra
}

// GenHist draws a history case.
func GenHist(t *rapid.T, p Profile) *HistCase {
	c := &HistCase{Prop: p.Prop, Seed: "A"}
	c.Storage = rapid.SampledFrom(p.Storages).Draw(t, "storage")
	nlogs := rapid.IntRange(p.MinLogs, p.MaxLogs).Draw(t, "nlogs")
	used := map[string]bool{}
	for i := 0; i < nlogs; i++ {
		var o string
		for {
			o = rapid.SampledFrom(origins).Draw(t, "origin")
			if !used[o] {
				break
			}
			// construct rather than reject: derive a fresh origin
			o = fmt.Sprintf("%s#%d", o, i)
			if !used[o] {
				break
			}
		}
		used[o] = true
		kl := fmt.Sprintf("log%d", i)
		if p.SharedKeys && i > 0 && Uniform(t, 3, "share") == 2 {
			kl = "log0"
		}
		name := "logkey" // shared key name as well as material when labels coincide
		if kl != "log0" {
			name = fmt.Sprintf("logkey%d", i)
		}
		ls := LogSpec{Origin: o, KeyLabel: kl, KeyName: name}
		if kl != "log0" || i == 0 {
			ls.ECDSA = Pct(t, p.ECDSAPct, "ecdsa")
		} else {
			ls.ECDSA = c.Logs[0].ECDSA // shares log 0's key
		}
		c.Logs = append(c.Logs, ls)
	}
	if p.WKeySets != nil {
		c.WKeys = p.WKeySets[rapid.IntRange(0, len(p.WKeySets)-1).Draw(t, "wkset")]
	} else {
		c.WKeys = ProdWKeys
	}
	nforks := rapid.IntRange(1, 3).Draw(t, "nforks")
	for i := 0; i < nforks; i++ {
		c.Forks = append(c.Forks, ForkSpec{Parent: rapid.IntRange(0, i).Draw(t, "fparent"), At: uint64(rapid.IntRange(0, 24).Draw(t, "fat"))})
	}
	nb := nforks + 1
	nops := rapid.IntRange(p.MinOps, p.MaxOps).Draw(t, "nops")
	w := p.Weights
	if w == nil {
		w = DefaultWeights
	}
	for i := 0; i < nops; i++ {
		op := genOp(t, p, w, i, nlogs, nb, len(c.WKeys))
		if Pct(t, p.FaultPct, "faulty") {
			points := []string{PWriteOps, PWriteGet, PWriteSet, PWriteClos}
			if p.DrvFaults {
				points = append(points, DBegin, DPrepare, DQuery, DRowsNext, DExec, DStmtClose, DCommit, DRollback)
			}
			nf := 1
			if p.DrvFaults && rapid.Bool().Draw(t, "twofaults") {
				nf = 2
			}
			for k := 0; k < nf; k++ {
				f := FaultSpec{
					Point: points[Uniform(t, len(points), "fpoint")],
					Code:  rapid.SampledFrom([]string{"plain", "unavailable", "internal", "deadline", "enoent", "norows", "eof", "ctxdeadline"}).Draw(t, "fcode"),
					Nth:   rapid.IntRange(0, 1).Draw(t, "fnth"),
				}
				if p.CancelPct > 0 && Pct(t, p.CancelPct, "cancelctx") {
					// the request's own context ends while a storage call is in flight
					f = FaultSpec{Point: rapid.SampledFrom([]string{PWriteOps, PWriteGet, PWriteSet}).Draw(t, "cpoint"), Code: "cancelctx"}
				}
				op.Faults = append(op.Faults, f)
			}
		}
		if (op.Note == "refresh" || op.Note == "zero") && Pct(t, p.PlantPct, "plant") {
			pl := op
			pl.Kind, pl.Note, pl.Faults = "plant", "plant", nil
			pl.TsAgo = int64(rapid.SampledFrom([]int{86400, 3600, 5, 400000000}).Draw(t, "plantago"))
			c.Ops = append(c.Ops, pl)
			if rapid.Bool().Draw(t, "replaystored") {
				// resubmit exactly the bytes the witness holds (its own, day-old, cosigned output)
				op.Cp = CpSpec{Replay: len(c.Ops), ReplayOut: true, Branch: -1, Origin: -1, Signer: -1}
				op.Note = "refresh"
			}
		}
		if p.DeadCtxPct > 0 && len(op.Faults) == 0 && Pct(t, p.DeadCtxPct, "deadctx") {
			// the caller has gone away before the witness looks at the request (a client that
			// disconnected, a deadline that passed in a queue): still an update request
			op.DeadCtx = rapid.SampledFrom([]string{"cancelled", "expired"}).Draw(t, "deadkind")
		}
		c.Ops = append(c.Ops, op)
	}
	return c
}

func genOp(t *rapid.T, p Profile, w map[string]int, i, nlogs, nb, nwk int) Op {
	cls := weighted(t, w, "cls")
	op := Op{Kind: "update", Note: cls, Cp: CpSpec{Branch: -1, Origin: -1, Signer: -1}, Old: SizeSpec{Rel: "cur"}, Proof: ProofSpec{Kind: "correct"}}
	if nlogs > 1 && Pct(t, p.OtherLogPct, "otherlog") {
		op.Log = rapid.IntRange(1, nlogs-1).Draw(t, "logidx")
	}
	if !p.AllowZero {
		op.Cp.MinSize = 1
	}
	grow := func() {
		d := genDelta(t, p.MaxJump, "delta")
		op.Cp.Size = SizeSpec{Rel: "cur", N: d}
	}
	switch cls {
	case "grow":
		grow()
		if Pct(t, p.Decorate, "deco") {
			op.Cp.Ext, op.Cp.Extra = genExtra(t, p, nlogs, nwk)
		}
	case "zero":
		op.Cp.MinSize = 0 // explicitly allowed to create/refresh a size-0 checkpoint
		op.Cp.Size = SizeSpec{Rel: "cur", N: 0}
		op.Proof.Kind = "empty"
		if Pct(t, p.Decorate, "zerodeco") {
			op.Cp.Ext, op.Cp.Extra = genExtra(t, p, nlogs, nwk)
		}
	case "refresh":
		op.Cp.Size = SizeSpec{Rel: "cur"}
		op.Proof.Kind = "empty"
		if !p.AllowZero {
			// with nothing stored this would create a size-0 checkpoint; aim at size>=1
			op.Cp.MinSize = 1
		}
	case "fork":
		op.Cp.Branch = rapid.IntRange(0, nb-1).Draw(t, "branch")
		op.Cp.Size = SizeSpec{Rel: "cur", N: int64(rapid.IntRange(-3, 6).Draw(t, "fdelta"))}
		switch rapid.IntRange(0, 3).Draw(t, "fproof") {
		case 0: // that branch's own proof
		case 1: // some branch's proof (possibly the current one's)
			pb := rapid.IntRange(0, nb-1).Draw(t, "fpb")
			op.Proof.Branch = &pb
		case 2:
			op.Proof = genBadProof(t, nb, p.NoReplay)
		default:
			op.Proof.Kind = "empty"
		}
	case "wrongold":
		grow()
		op.Old = genWrongOld(t)
		if rapid.Bool().Draw(t, "oldproofmatch") {
			// proof that is correct for the claimed old size
			op.Proof.From = &SizeSpec{Rel: op.Old.Rel, N: op.Old.N, Abs: op.Old.Abs}
		}
	case "badproof":
		grow()
		op.Proof = genBadProof(t, nb, p.NoReplay)
	case "replay":
		op.Cp.Replay = rapid.IntRange(1, i+1).Draw(t, "replayidx")
		op.Cp.ReplayOut = rapid.Bool().Draw(t, "replayout")
		switch rapid.IntRange(0, 2).Draw(t, "rold") {
		case 0:
			op.Old = SizeSpec{Rel: "cur"}
		case 1:
			op.Old = SizeSpec{Rel: "sub"}
		default:
			op.Old = SizeSpec{Rel: "abs"}
		}
		if rapid.Bool().Draw(t, "rproof") {
			op.Proof.Kind = "replay"
			op.Proof.I = rapid.IntRange(0, 12).Draw(t, "rpi")
		}
	case "garbage":
		grow()
		if rapid.IntRange(0, 3).Draw(t, "gsame") == 0 {
			op.Cp.Size = SizeSpec{Rel: "cur"}
		}
		op.Cp.Mut = genMutation(t)
	case "unkroot":
		op.Cp.Root = "rand"
		op.Cp.RootTag = rapid.IntRange(0, 3).Draw(t, "roottag")
		op.Cp.Size = SizeSpec{Rel: "cur", N: int64(rapid.IntRange(0, 5).Draw(t, "udelta"))}
		if rapid.Bool().Draw(t, "uproof") {
			op.Proof = genBadProof(t, nb, p.NoReplay)
		}
	case "oddroot":
		op.Cp.Root = rapid.SampledFrom([]string{"odd0", "odd5", "odd31", "odd33"}).Draw(t, "odd")
		op.Cp.Size = SizeSpec{Rel: "cur", N: int64(rapid.IntRange(0, 5).Draw(t, "odelta"))}
	case "wrongkey":
		grow()
		if rapid.IntRange(0, 2).Draw(t, "wksame") == 0 {
			op.Cp.Size = SizeSpec{Rel: "cur"}
		}
		switch rapid.IntRange(0, 3).Draw(t, "wk") {
		case 0:
			op.Cp.Signer = -2
		case 1:
			op.Cp.Signer = -3
		case 2:
			op.Cp.Signer = rapid.IntRange(0, nlogs-1).Draw(t, "wkother")
		default:
			op.Cp.SignerName = "logkeyx"
		}
	case "wrongorigin":
		grow()
		if rapid.Bool().Draw(t, "wolog") && nlogs > 1 {
			op.Cp.Origin = rapid.IntRange(0, nlogs-1).Draw(t, "woidx")
		} else {
			op.Cp.Origin = -2
			op.Cp.OriginLit = rapid.SampledFrom([]string{"example.com/lo", "example.com/log3", "EXAMPLE.com/log", "x"}).Draw(t, "wolit")
		}
	case "unknownlog":
		op.Log = -1
		grow()
		if rapid.Bool().Draw(t, "idalt") {
			// the request names another spelling of a configured ID and carries that log's
			// own, correctly signed checkpoint as a first submission
			base := rapid.IntRange(0, nlogs-1).Draw(t, "idaltbase")
			op.IDAlt = &IDAlt{Base: base, Kind: rapid.IntRange(0, 5).Draw(t, "idaltkind")}
			op.Cp.Origin, op.Cp.Signer = base, base
			if rapid.Bool().Draw(t, "idaltfirst") {
				op.Old = SizeSpec{Rel: "abs"}
				op.Proof = ProofSpec{Kind: "empty"}
			}
		}
	case "smaller":
		op.Cp.Size = SizeSpec{Rel: "cur", N: -int64(rapid.IntRange(1, 6).Draw(t, "sdelta"))}
		switch rapid.IntRange(0, 2).Draw(t, "sold") {
		case 0:
			op.Old = SizeSpec{Rel: "cur"}
		case 1:
			op.Old = SizeSpec{Rel: "sub"}
		default:
			op.Old = SizeSpec{Rel: "abs"}
		}
		if rapid.Bool().Draw(t, "sproof") {
			op.Proof.From = &SizeSpec{Rel: "sub"}
			op.Proof.To = &SizeSpec{Rel: "cur"}
		}
	case "mismatch":
		// same size as held, different root: another branch's tree or an unknown root
		op.Cp.MinSize = 0
		op.Cp.Size = SizeSpec{Rel: "cur"}
		if rapid.Bool().Draw(t, "mmreal") {
			op.Cp.Branch = rapid.IntRange(0, nb-1).Draw(t, "mmbranch")
		} else {
			op.Cp.Root = "rand"
			op.Cp.RootTag = rapid.IntRange(0, 3).Draw(t, "mmtag")
		}
		op.Proof.Kind = rapid.SampledFrom([]string{"empty", "correct", "random", "many"}).Draw(t, "mmproof")
		op.Proof.I = rapid.IntRange(0, 12).Draw(t, "mmpi")
	case "echo":
		// hand the witness back exactly what it returned (its own cosigned note), as a
		// refresh, with or without a proof
		op.Cp.Replay = rapid.IntRange(1, i+1).Draw(t, "echoidx")
		if rapid.Bool().Draw(t, "echolast") {
			op.Cp.Replay = i // the immediately preceding op (0 = none: falls back to a fresh checkpoint)
		}
		op.Cp.ReplayOut = true
		op.Old = SizeSpec{Rel: "cur"}
		op.Proof = ProofSpec{Kind: rapid.SampledFrom([]string{"empty", "random", "replay", "extra", "correct", "many"}).Draw(t, "echoproof"), I: rapid.IntRange(0, 5).Draw(t, "echopi"), J: rapid.IntRange(0, 255).Draw(t, "echopj")}
	case "tofufork":
		// a validly signed checkpoint of another branch presented as if it were first use
		op.Cp.Branch = rapid.IntRange(0, nb-1).Draw(t, "tfbranch")
		op.Cp.Size = SizeSpec{Rel: "cur", N: int64(rapid.IntRange(-3, 6).Draw(t, "tfdelta"))}
		op.Old = SizeSpec{Rel: "abs", Abs: 0}
		op.Proof.Kind = "empty"
	case "decorated":
		grow()
		if rapid.IntRange(0, 3).Draw(t, "dsame") == 0 {
			op.Cp.Size = SizeSpec{Rel: "cur"}
		}
		op.Cp.Ext, op.Cp.Extra = genExtra(t, p, nlogs, nwk)
	}
	if cls != "wrongold" && Pct(t, p.MixOldPct, "mixold") {
		op.Old = genWrongOld(t)
		op.Note += "+old"
	}
	if op.Cp.Replay == 0 && op.Cp.Mut == nil && Pct(t, p.NonCanonPct, "noncanon") {
		op.Cp.NonCanon = rapid.IntRange(1, 3).Draw(t, "noncanonk")
	}
	// notes of a chosen total length around buffer-size boundaries (a limit somebody adds
	// on the way in also applies to what the witness stores, which is a little longer)
	if op.Cp.Replay == 0 && op.Cp.Mut == nil && (cls == "grow" || cls == "refresh" || cls == "decorated") && Pct(t, 5, "padto") {
		b := rapid.SampledFrom([]int{4096, 8192, 16384, 16384, 32768, 65536}).Draw(t, "padbound")
		op.Cp.PadTo = b - 400 + Uniform(t, 421, "padoff")
		op.Note += "+padded"
	}
	return op
}

func genWrongOld(t *rapid.T) SizeSpec {
	switch rapid.IntRange(0, 9).Draw(t, "oldk") {
	case 0:
		return SizeSpec{Rel: "abs", Abs: 0}
	case 1:
		return SizeSpec{Rel: "cur", N: 1}
	case 2:
		return SizeSpec{Rel: "cur", N: -1}
	case 3:
		return SizeSpec{Rel: "sub"}
	case 4:
		return SizeSpec{Rel: "sub", N: 1}
	case 5:
		return SizeSpec{Rel: "abs", Abs: 1 << 63}
	case 6:
		return SizeSpec{Rel: "abs", Abs: ^uint64(0)}
	case 7:
		return SizeSpec{Rel: "abs", Abs: uint64(rapid.IntRange(0, 50).Draw(t, "oldabs"))}
	case 8:
		return SizeSpec{Rel: "sub", N: int64(rapid.SampledFrom([]int{1, 2, 1000}).Draw(t, "oldsubd"))}
	default:
		return SizeSpec{Rel: "cur", N: int64(rapid.IntRange(-5, 5).Draw(t, "oldrel"))}
	}
}

var mutKinds = []string{"bitflip", "truncate", "dropline", "dupline", "swaplines", "setbyte", "insert", "delete", "sigbyte", "sigbyte", "signame", "sighash", "textbyte", "textbyte", "nosep", "crlf"}

func genMutation(t *rapid.T) *Mutation {
	return &Mutation{Kind: rapid.SampledFrom(mutKinds).Draw(t, "mut"), A: rapid.IntRange(0, 4000).Draw(t, "ma"), B: rapid.IntRange(0, 255).Draw(t, "mb")}
}
