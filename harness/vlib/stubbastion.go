//go:build verif

package vlib

import (
	"bytes"
	"context"
	"crypto/ecdsa"
	"crypto/elliptic"
	"crypto/rand"
	"crypto/tls"
	"crypto/x509"
	"crypto/x509/pkix"
	"encoding/pem"
	"errors"
	"fmt"
	"io"
	"math/big"
	"net"
	"net/http"
	"os"
	"path/filepath"
	"sync"
	"time"

	"golang.org/x/net/http2"
)

var (
	caOnce sync.Once
	caCert tls.Certificate
	caErr  error
)

// InstallTestCA generates a self-signed certificate for 127.0.0.1 and makes it the
// process's only trusted root by pointing SSL_CERT_FILE at it. The witness's bastion
// client verifies the bastion's certificate against the system roots, which Go loads
// once per process, so this must run before the first TLS use (call it in TestMain).
func InstallTestCA() error {
	caOnce.Do(func() {
		key, err := ecdsa.GenerateKey(elliptic.P256(), rand.Reader)
		if err != nil {
			caErr = err
			return
		}
		tmpl := &x509.Certificate{
			SerialNumber:          big.NewInt(42),
			Subject:               pkix.Name{CommonName: "verif stub bastion"},
			NotBefore:             time.Now().Add(-time.Hour),
			NotAfter:              time.Now().Add(48 * time.Hour),
			KeyUsage:              x509.KeyUsageDigitalSignature | x509.KeyUsageCertSign,
			ExtKeyUsage:           []x509.ExtKeyUsage{x509.ExtKeyUsageServerAuth},
			BasicConstraintsValid: true,
			IsCA:                  true,
			IPAddresses:           []net.IP{net.ParseIP("127.0.0.1")},
			DNSNames:              []string{"localhost"},
		}
		der, err := x509.CreateCertificate(rand.Reader, tmpl, tmpl, &key.PublicKey, key)
		if err != nil {
			caErr = err
			return
		}
		dir := os.Getenv("VERIF_SCRATCH")
		if dir == "" {
			dir = os.TempDir()
		}
		path := filepath.Join(dir, fmt.Sprintf("verif-ca-%d.pem", os.Getpid()))
		if err := os.WriteFile(path, pem.EncodeToMemory(&pem.Block{Type: "CERTIFICATE", Bytes: der}), 0o644); err != nil {
			caErr = err
			return
		}
		os.Setenv("SSL_CERT_FILE", path)
		os.Setenv("SSL_CERT_DIR", filepath.Join(dir, "no-such-dir"))
		caCert = tls.Certificate{Certificate: [][]byte{der}, PrivateKey: key}
	})
	return caErr
}

// StubBastion is a minimal bastion: it accepts the witness's reverse connection (TLS
// 1.3, ALPN bastion/0) and then speaks HTTP/2 *as a client* over the accepted socket.
type StubBastion struct {
	Addr string
	ln   net.Listener
	mu   sync.Mutex
	cc   *http2.ClientConn
	got  chan struct{}
	errs []string
}

// NewStubBastion starts listening on a loopback port.
func NewStubBastion() (*StubBastion, error) {
	if err := InstallTestCA(); err != nil {
		return nil, err
	}
	ln, err := tls.Listen("tcp", "127.0.0.1:0", &tls.Config{
		Certificates: []tls.Certificate{caCert},
		NextProtos:   []string{"bastion/0"},
		MinVersion:   tls.VersionTLS13,
		ClientAuth:   tls.RequestClientCert,
	})
	if err != nil {
		return nil, err
	}
	b := &StubBastion{Addr: ln.Addr().String(), ln: ln, got: make(chan struct{}, 16)}
	go b.accept()
	return b, nil
}

func (b *StubBastion) accept() {
	for {
		c, err := b.ln.Accept()
		if err != nil {
			return
		}
		tc := c.(*tls.Conn)
		ctx, cancel := context.WithTimeout(context.Background(), 10*time.Second)
		err = tc.HandshakeContext(ctx)
		cancel()
		if err != nil {
			b.note("handshake: " + err.Error())
			c.Close()
			continue
		}
		if p := tc.ConnectionState().NegotiatedProtocol; p != "bastion/0" {
			b.note("negotiated protocol " + p)
			c.Close()
			continue
		}
		cc, err := (&http2.Transport{}).NewClientConn(tc)
		if err != nil {
			b.note("http2 client conn: " + err.Error())
			c.Close()
			continue
		}
		b.mu.Lock()
		b.cc = cc
		b.mu.Unlock()
		select {
		case b.got <- struct{}{}:
		default:
		}
	}
}

func (b *StubBastion) note(s string) {
	b.mu.Lock()
	b.errs = append(b.errs, s)
	b.mu.Unlock()
}

// Errors returns connection-level problems seen so far.
func (b *StubBastion) Errors() []string {
	b.mu.Lock()
	defer b.mu.Unlock()
	return append([]string{}, b.errs...)
}

// WaitConnected waits for the witness to dial in.
func (b *StubBastion) WaitConnected(d time.Duration) error {
	b.mu.Lock()
	have := b.cc != nil
	b.mu.Unlock()
	if have {
		return nil
	}
	select {
	case <-b.got:
		return nil
	case <-time.After(d):
		// a deadline of the harness, not an observation about a listed property: the connection
		// is dialled on a 5 s tick with a 10 s dial timeout, and on a badly overloaded machine
		// (load average above 100 was seen) several rounds can go by. SaveFailure recognises the
		// marker and does not turn this into a replayable violation; the run is inconclusive.
		return fmt.Errorf("%s witness did not connect to the stub bastion within %v (%v)", InfraMarker, d, b.Errors())
	}
}

// Post sends an add-checkpoint request down the reverse connection.
func (b *StubBastion) Post(body []byte) (int, http.Header, []byte, error) {
	b.mu.Lock()
	cc := b.cc
	b.mu.Unlock()
	if cc == nil {
		return 0, nil, nil, errors.New("no reverse connection")
	}
	req, err := http.NewRequest(http.MethodPost, "https://witness.invalid/add-checkpoint", bytes.NewReader(body))
	if err != nil {
		return 0, nil, nil, err
	}
	ctx, cancel := context.WithTimeout(context.Background(), 20*time.Second)
	defer cancel()
	resp, err := cc.RoundTrip(req.WithContext(ctx))
	if err != nil {
		return 0, nil, nil, err
	}
	defer resp.Body.Close()
	rb, err := io.ReadAll(resp.Body)
	return resp.StatusCode, resp.Header, rb, err
}

// Close stops the listener.
func (b *StubBastion) Close() {
	_ = b.ln.Close()
	b.mu.Lock()
	if b.cc != nil {
		_ = b.cc.Close()
	}
	b.mu.Unlock()
}
