//go:build verif

package vlib

import (
	"bytes"
	"fmt"
	"runtime"
	"strconv"
	"strings"
	"sync"
	"time"
)

// goid returns the current goroutine's id (parsed from the stack header).
func goid() int64 {
	var buf [64]byte
	n := runtime.Stack(buf[:], false)
	b := buf[:n]
	b = bytes.TrimPrefix(b, []byte("goroutine "))
	if i := bytes.IndexByte(b, ' '); i > 0 {
		id, _ := strconv.ParseInt(string(b[:i]), 10, 64)
		return id
	}
	return -1
}

// SchedStep is one scheduling decision.
type SchedStep struct {
	Enabled []int  // request indices that could run
	Chosen  int    // index into Enabled
	Req     int    // request released
	Point   string // storage call it was parked at
}

type reqState struct {
	idx      int
	state    string // running | parked | blocked | done
	point    string
	logID    string
	release  chan struct{}
	invoke   int // step at which it was first released (its first storage call), -1 if never parked
	response int // step at which it finished
	// bookkeeping for the non-triviality rule
	readAt int // step at which its Write.GetLatest ran (-1)
	setAt  int // step at which its Write.Set ran (-1)
	waited bool
	gid    int64 // goroutine running the request
}

// lockWaitStates are goroutine states that mean "waiting for a lock another goroutine
// holds" - a request in one of them cannot reach its next storage call until somebody
// else is released, so the scheduler need not sit out its no-park timeout.
var lockWaitStates = map[string]bool{"sync.Mutex.Lock": true, "sync.RWMutex.Lock": true, "sync.RWMutex.RLock": true, "semacquire": true}

// goroutineStates returns the wait state of every goroutine ("running", "select",
// "sync.Mutex.Lock", ...), keyed by goroutine id.
func goroutineStates() map[int64]string {
	buf := make([]byte, 1<<18)
	n := runtime.Stack(buf, true)
	out := map[int64]string{}
	for _, blk := range bytes.Split(buf[:n], []byte("\n\n")) {
		if !bytes.HasPrefix(blk, []byte("goroutine ")) {
			continue
		}
		line := blk
		if i := bytes.IndexByte(blk, '\n'); i >= 0 {
			line = blk[:i]
		}
		rest := line[len("goroutine "):]
		sp := bytes.IndexByte(rest, ' ')
		lb, rb := bytes.IndexByte(rest, '['), bytes.LastIndexByte(rest, ']')
		if sp < 0 || lb < 0 || rb < lb {
			continue
		}
		id, err := strconv.ParseInt(string(rest[:sp]), 10, 64)
		if err != nil {
			continue
		}
		st := string(rest[lb+1 : rb])
		if c := strings.IndexByte(st, ','); c >= 0 {
			st = st[:c] // "semacquire, 2 minutes"
		}
		out[id] = st
	}
	return out
}

type schedEvent struct {
	req   int
	kind  string // park | done
	point string
	logID string
}

// Scheduler owns the interleaving of a set of request goroutines at storage-call
// granularity.
type Scheduler struct {
	mu      sync.Mutex
	ip      *IPersist
	sqlConn bool // model the single SQLite connection
	byG     map[int64]*reqState
	reqs    []*reqState
	events  chan schedEvent
	holder  int // request holding the single connection, -1 none (bookkeeping for messages only)
	// ConnBusy reports whether the single connection is checked out right now (observed,
	// e.g. db.Stats().InUse > 0): the scheduler does not assume that a write handle
	// pins the connection, it looks.
	ConnBusy func() bool
	inHandle map[int]bool
	Steps    []SchedStep
	step     int
	// BlockTimeout: a released goroutine that neither parks nor finishes within this
	// time is considered blocked inside a storage call.
	BlockTimeout time.Duration
	// DeadlockTimeout: nothing can progress for this long.
	DeadlockTimeout time.Duration
}

// NewScheduler attaches a scheduler to ip. sqlConn says whether the storage below is
// SQLite with a pool of one connection.
func NewScheduler(ip *IPersist, sqlConn bool) *Scheduler {
	s := &Scheduler{ip: ip, sqlConn: sqlConn, byG: map[int64]*reqState{}, events: make(chan schedEvent, 256), holder: -1, inHandle: map[int]bool{},
		BlockTimeout: 2 * time.Second, DeadlockTimeout: 10 * time.Second}
	ip.Yield = s.yield
	ip.After = s.after
	return s
}

// Detach removes the hooks.
func (s *Scheduler) Detach() {
	s.ip.Yield = nil
	s.ip.After = nil
}

func (s *Scheduler) yield(point, logID string) {
	g := goid()
	s.mu.Lock()
	r := s.byG[g]
	s.mu.Unlock()
	if r == nil {
		return // not a scheduled goroutine (harness reads)
	}
	s.events <- schedEvent{req: r.idx, kind: "park", point: point, logID: logID}
	<-r.release
}

func (s *Scheduler) after(point, logID string, err error) {
	if !s.sqlConn {
		return
	}
	g := goid()
	s.mu.Lock()
	defer s.mu.Unlock()
	r := s.byG[g]
	if r == nil {
		return
	}
	switch point {
	case PWriteOps:
		if err == nil {
			s.holder = r.idx
			s.inHandle[r.idx] = true
		}
	case PWriteClos:
		if s.holder == r.idx {
			s.holder = -1
		}
		delete(s.inHandle, r.idx)
	}
}

func needsConn(point string) bool {
	return point == PWriteOps || point == PReadGet || point == PLogs
}

// SchedResult is the outcome of one scheduled run.
type SchedResult struct {
	Invoke, Response []int // per request: step of invocation (first storage call) and of response
	Deadlock         string
	Window           bool // two same-log updates both read before either wrote
	Waited           bool // some request had to wait for the single connection
}

// Run executes the request functions under the schedule given by choices (each entry
// picks among the enabled requests, modulo their number; missing entries mean 0).
func (s *Scheduler) Run(fns []func(), choices []int) SchedResult {
	n := len(fns)
	s.reqs = make([]*reqState, n)
	for i := range fns {
		s.reqs[i] = &reqState{idx: i, state: "running", release: make(chan struct{}), invoke: -1, response: -1, readAt: -1, setAt: -1}
	}
	for i, fn := range fns {
		r := s.reqs[i]
		started := make(chan struct{})
		go func(fn func()) {
			s.mu.Lock()
			r.gid = goid()
			s.byG[r.gid] = r
			s.mu.Unlock()
			close(started)
			fn()
			s.mu.Lock()
			delete(s.byG, goid())
			s.mu.Unlock()
			s.events <- schedEvent{req: r.idx, kind: "done"}
		}(fn)
		<-started
	}
	res := SchedResult{Invoke: make([]int, n), Response: make([]int, n)}
	apply := func(ev schedEvent) {
		r := s.reqs[ev.req]
		if ev.kind == "done" {
			r.state = "done"
			r.response = s.step
		} else {
			r.state = "parked"
			r.point, r.logID = ev.point, ev.logID
		}
	}
	// wait until every request is parked or done
	settle := func(target int) bool {
		deadline := time.After(s.BlockTimeout)
		tick := time.NewTicker(500 * time.Microsecond)
		defer tick.Stop()
		lockWaits := 0
		for {
			if target >= 0 {
				if st := s.reqs[target].state; st == "parked" || st == "done" {
					// drain whatever else arrived
					for {
						select {
						case ev := <-s.events:
							apply(ev)
						default:
							return true
						}
					}
				}
			} else {
				all := true
				for _, r := range s.reqs {
					if r.state == "running" {
						all = false
					}
				}
				if all {
					return true
				}
			}
			select {
			case ev := <-s.events:
				apply(ev)
				lockWaits = 0
			case <-tick.C:
				// every request still running sits in a lock wait (twice in a row): they are
				// blocked behind somebody who is parked; no need to wait for the timeout
				states := goroutineStates()
				all := true
				for _, r := range s.reqs {
					if (target >= 0 && r.idx != target) || r.state != "running" {
						continue
					}
					if !lockWaitStates[states[r.gid]] {
						all = false
					}
				}
				if all {
					lockWaits++
				} else {
					lockWaits = 0
				}
				if lockWaits >= 4 {
					return false
				}
			case <-deadline:
				return false
			}
		}
	}
	if !settle(-1) {
		for _, r := range s.reqs {
			if r.state == "running" {
				r.state = "blocked"
			}
		}
	}
	ci := 0
	for {
		live := 0
		var enabled []int
		s.mu.Lock()
		holder := s.holder
		in := map[int]bool{}
		for k, v := range s.inHandle {
			in[k] = v
		}
		s.mu.Unlock()
		busy := s.sqlConn && s.ConnBusy != nil && s.ConnBusy()
		for _, r := range s.reqs {
			if r.state == "done" {
				continue
			}
			live++
			if r.state != "parked" {
				continue
			}
			// a request outside its own write handle that needs the (observed busy)
			// connection would block inside the call: it is not offered
			if busy && needsConn(r.point) && !in[r.idx] {
				r.waited = true
				continue
			}
			enabled = append(enabled, r.idx)
		}
		if live == 0 {
			break
		}
		if len(enabled) == 0 {
			// nobody can be released: wait for a blocked goroutine to come back, else deadlock
			select {
			case ev := <-s.events:
				apply(ev)
				continue
			case <-time.After(s.DeadlockTimeout):
				// confirm before reporting: a starved machine is not a deadlock
				select {
				case ev := <-s.events:
					apply(ev)
					continue
				case <-time.After(2 * s.DeadlockTimeout):
				}
				var desc []string
				for _, r := range s.reqs {
					if r.state != "done" {
						desc = append(desc, fmt.Sprintf("request %d %s at %s", r.idx, r.state, r.point))
					}
				}
				res.Deadlock = fmt.Sprintf("no request can make progress for %v: %v (connection held by request %d)", s.DeadlockTimeout, desc, holder)
				s.abandon()
				s.finish(&res)
				return res
			}
		}
		c := 0
		if ci < len(choices) {
			c = choices[ci]
		}
		ci++
		if c < 0 {
			c = -c
		}
		c %= len(enabled)
		r := s.reqs[enabled[c]]
		s.Steps = append(s.Steps, SchedStep{Enabled: enabled, Chosen: c, Req: r.idx, Point: r.point})
		s.step++
		if r.invoke < 0 {
			r.invoke = s.step
		}
		switch r.point {
		case PWriteGet:
			r.readAt = s.step
		case PWriteSet:
			r.setAt = s.step
		}
		r.state = "running"
		r.release <- struct{}{}
		if !settle(r.idx) {
			r.state = "blocked"
		}
	}
	s.finish(&res)
	return res
}

// abandon releases every parked goroutine so that nothing stays parked for ever after a
// deadlock report (blocked ones may leak until the process ends).
func (s *Scheduler) abandon() {
	s.ip.Yield = nil
	s.ip.After = nil
	for _, r := range s.reqs {
		if r.state == "parked" {
			select {
			case r.release <- struct{}{}:
			default:
			}
		}
	}
}

func (s *Scheduler) finish(res *SchedResult) {
	for i, r := range s.reqs {
		res.Invoke[i], res.Response[i] = r.invoke, r.response
		if r.invoke < 0 {
			// never touched storage: instantaneous at its completion
			res.Invoke[i] = r.response
		}
		if r.waited {
			res.Waited = true
		}
	}
	for i, a := range s.reqs {
		for j, b := range s.reqs {
			if i >= j || a.logID != b.logID || a.readAt < 0 || b.readAt < 0 {
				continue
			}
			firstWrite := 1 << 30
			if a.setAt >= 0 && a.setAt < firstWrite {
				firstWrite = a.setAt
			}
			if b.setAt >= 0 && b.setAt < firstWrite {
				firstWrite = b.setAt
			}
			if a.readAt < firstWrite && b.readAt < firstWrite && firstWrite < 1<<30 {
				res.Window = true
			}
		}
	}
}

// NextChoices advances a DFS over schedules: given the steps of the run just made it
// returns the choice prefix of the next unexplored schedule, or nil when done.
func NextChoices(steps []SchedStep) []int {
	for k := len(steps) - 1; k >= 0; k-- {
		if steps[k].Chosen+1 < len(steps[k].Enabled) {
			next := make([]int, k+1)
			for i := 0; i < k; i++ {
				next[i] = steps[i].Chosen
			}
			next[k] = steps[k].Chosen + 1
			return next
		}
	}
	return nil
}
