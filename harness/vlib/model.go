//go:build verif

package vlib

import "bytes"

// Expect is what the reference model (written from c2sp.org/tlog-witness and the text
// of C09, not from witness.go) says about one request.
type Expect struct {
	InClaim    bool   // the property makes a statement about this request
	Verdict    string // expected verdict class
	WantStored bool   // the refusal must carry the stored cosigned checkpoint
	Why        string // reason a request is outside the claim
}

// ExpectVerdict applies the ordered rule list to the request of st in the state the
// named log was in before it.
func ExpectVerdict(st *Step) Expect {
	r := st.Req
	// rule 1: unknown log
	if r.LogIdx < 0 {
		return Expect{InClaim: true, Verdict: VUnknownLog}
	}
	// rule 2: no valid log signature. Only decided for requests whose authenticity the
	// harness knows by construction.
	if r.Mutated {
		return Expect{Why: "mutated bytes: authenticity not known by construction"}
	}
	if !r.Authentic {
		return Expect{InClaim: true, Verdict: VNoSig}
	}
	if !r.Plain {
		return Expect{Why: "odd-length root or oversized signature block"}
	}
	held := st.PreHeld
	// rule 3: nothing stored yet
	if !held.Present {
		if r.Old == 0 && len(r.Proof) == 0 {
			return Expect{InClaim: true, Verdict: VAccepted}
		}
		return Expect{Why: "first use with non-zero old size or non-empty proof"}
	}
	if !held.ParseOK || len(held.Root) != 32 {
		return Expect{Why: "stored checkpoint is not a plain one"}
	}
	// rule 4
	if r.Old > r.CpSize {
		return Expect{InClaim: true, Verdict: VOldTooBig, WantStored: true}
	}
	// rule 5
	if r.Old != held.Size {
		return Expect{InClaim: true, Verdict: VStale, WantStored: true}
	}
	// rule 6
	if r.CpSize == held.Size && !bytes.Equal(r.CpRoot, held.Root) {
		return Expect{InClaim: true, Verdict: VMismatch, WantStored: true}
	}
	if held.Size == 0 && r.CpSize > 0 {
		return Expect{Why: "stored size 0 < submitted size (claimed in C08)"}
	}
	// rule 7
	if !VerifyConsistencyStrict(held.Size, r.CpSize, held.Root, r.CpRoot, r.Proof) {
		return Expect{InClaim: true, Verdict: VBadProof, WantStored: true}
	}
	return Expect{InClaim: true, Verdict: VAccepted}
}
