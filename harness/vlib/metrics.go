//go:build verif

package vlib

import (
	"strings"
	"sync"

	promclient "github.com/prometheus/client_golang/prometheus"
	"github.com/prometheus/client_golang/prometheus/collectors"
	"github.com/transparency-dev/witness/monitoring"
	promadapter "github.com/transparency-dev/witness/monitoring/prometheus"
)

// PromPrefix is the prefix cmd/omniwitness gives its Prometheus metric factory.
const PromPrefix = "omniwitness_"

// RecFactory is a recording monitoring.MetricFactory.
type RecFactory struct {
	mu       sync.Mutex
	counters map[string]*RecCounter
}

// RecCounter records increments per label tuple.
type RecCounter struct {
	f      *RecFactory
	Name   string
	Labels []string
	vals   map[string]int
	// prom is the same counter as the repository's Prometheus binding builds it (what an
	// operator scrapes when -metrics_listen is set); every increment is forwarded to it.
	prom monitoring.Counter
}

// Metrics is the process-wide recording factory; InstallMetrics registers it.
var Metrics = &RecFactory{counters: map[string]*RecCounter{}}

// InstallMetrics installs the recording factory (first call in the process wins, as
// monitoring.SetMetricFactory keeps the first factory only).
func InstallMetrics() {
	// The Go runtime and process collectors of the default registry are of no interest here
	// and make every Gather slower.
	promclient.Unregister(collectors.NewGoCollector())
	promclient.Unregister(collectors.NewProcessCollector(collectors.ProcessCollectorOpts{}))
	monitoring.SetMetricFactory(Metrics)
}

// NewCounter implements monitoring.MetricFactory.
func (f *RecFactory) NewCounter(name, help string, labelNames ...string) monitoring.Counter {
	f.mu.Lock()
	defer f.mu.Unlock()
	c := &RecCounter{f: f, Name: name, Labels: labelNames, vals: map[string]int{}}
	c.prom = promadapter.MetricFactory{Prefix: PromPrefix}.NewCounter(name, help, labelNames...)
	f.counters[name] = c
	return c
}

// Inc implements monitoring.Counter.
func (c *RecCounter) Inc(labelVals ...string) {
	c.f.mu.Lock()
	c.vals[strings.Join(labelVals, "|")]++
	c.f.mu.Unlock()
	c.prom.Inc(labelVals...)
}

// PromSnapshot is Snapshot as an operator sees it: the values the default Prometheus
// registry reports for the counters the repository's own binding (monitoring/prometheus)
// registered, keyed like Snapshot ("counter{label values}" without the binary's prefix;
// label values in the order of the label names, which is the declaration order for the
// one-label witness counters).
func PromSnapshot(prefix string) (map[string]int, error) {
	mfs, err := promclient.DefaultGatherer.Gather()
	if err != nil {
		return nil, err
	}
	out := map[string]int{}
	for _, mf := range mfs {
		n := mf.GetName()
		if !strings.HasPrefix(n, PromPrefix+prefix) {
			continue
		}
		n = strings.TrimPrefix(n, PromPrefix)
		for _, m := range mf.GetMetric() {
			var vals []string
			for _, lp := range m.GetLabel() {
				vals = append(vals, lp.GetValue())
			}
			v := m.GetCounter().GetValue()
			if v != float64(int(v)) {
				out[n+"{"+strings.Join(vals, "|")+"}#fractional"] = 1
			}
			out[n+"{"+strings.Join(vals, "|")+"}"] = int(v)
		}
	}
	return out, nil
}

// Snapshot returns "counter{labels}" -> value for every counter whose name has the
// given prefix.
func (f *RecFactory) Snapshot(prefix string) map[string]int {
	f.mu.Lock()
	defer f.mu.Unlock()
	out := map[string]int{}
	for n, c := range f.counters {
		if !strings.HasPrefix(n, prefix) {
			continue
		}
		for l, v := range c.vals {
			out[n+"{"+l+"}"] = v
		}
	}
	return out
}

// Diff returns after-before for all keys with a non-zero difference.
func Diff(before, after map[string]int) map[string]int {
	d := map[string]int{}
	for k, v := range after {
		if v != before[k] {
			d[k] = v - before[k]
		}
	}
	for k, v := range before {
		if _, ok := after[k]; !ok && v != 0 {
			d[k] = -v
		}
	}
	return d
}
