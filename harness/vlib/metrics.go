//go:build verif

package vlib

import (
	"strings"
	"sync"

	"github.com/transparency-dev/witness/monitoring"
)

// RecFactory is a recording monitoring.MetricFactory.
type RecFactory struct {
	mu       sync.Mutex
	counters map[string]*RecCounter
}

// RecCounter records increments per label tuple.
type RecCounter struct {
	f      *RecFactory
	Name   string
	Labels []string
	vals   map[string]int
}

// Metrics is the process-wide recording factory; InstallMetrics registers it.
var Metrics = &RecFactory{counters: map[string]*RecCounter{}}

// InstallMetrics installs the recording factory (first call in the process wins, as
// monitoring.SetMetricFactory keeps the first factory only).
func InstallMetrics() { monitoring.SetMetricFactory(Metrics) }

// NewCounter implements monitoring.MetricFactory.
func (f *RecFactory) NewCounter(name, help string, labelNames ...string) monitoring.Counter {
	f.mu.Lock()
	defer f.mu.Unlock()
	c := &RecCounter{f: f, Name: name, Labels: labelNames, vals: map[string]int{}}
	f.counters[name] = c
	return c
}

// Inc implements monitoring.Counter.
func (c *RecCounter) Inc(labelVals ...string) {
	c.f.mu.Lock()
	c.vals[strings.Join(labelVals, "|")]++
	c.f.mu.Unlock()
}

// Snapshot returns "counter{labels}" -> value for every counter whose name has the
// given prefix.
func (f *RecFactory) Snapshot(prefix string) map[string]int {
	f.mu.Lock()
	defer f.mu.Unlock()
	out := map[string]int{}
	for n, c := range f.counters {
		if !strings.HasPrefix(n, prefix) {
			continue
		}
		for l, v := range c.vals {
			out[n+"{"+l+"}"] = v
		}
	}
	return out
}

// Diff returns after-before for all keys with a non-zero difference.
func Diff(before, after map[string]int) map[string]int {
	d := map[string]int{}
	for k, v := range after {
		if v != before[k] {
			d[k] = v - before[k]
		}
	}
	for k, v := range before {
		if _, ok := after[k]; !ok && v != 0 {
			d[k] = -v
		}
	}
	return d
}
