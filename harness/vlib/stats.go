//go:build verif

package vlib

import (
	"encoding/json"
	"flag"
	"fmt"
	"io"
	"os"
	"path/filepath"
	"sort"
	"strconv"
	"strings"
	"sync"

	"k8s.io/klog/v2"
)

// Stats accumulates what a check actually explored; the driver merges the files of
// all shards into /verif/evidence/<id>.json.
type Stats struct {
	mu          sync.Mutex
	Prop        string         `json:"prop"`
	Part        string         `json:"part"`
	Evaluations int            `json:"evaluations"`
	Nontrivial  map[string]int `json:"nontrivial"` // case hash -> 1
	Classes     map[string]int `json:"classes"`
	Samples     []any          `json:"samples"`
	Excluded    map[string]int `json:"excluded"`
	Counters    map[string]int `json:"counters"`
	Exhaustive  bool           `json:"exhaustive"`
	Rule        string         `json:"rule"`
	nsample     int
}

var (
	statsMu  sync.Mutex
	statsTab = map[string]*Stats{}
)

// StatsFor returns the accumulator for (property, part).
func StatsFor(prop, part, rule string) *Stats {
	statsMu.Lock()
	defer statsMu.Unlock()
	k := prop + "/" + part
	if s, ok := statsTab[k]; ok {
		return s
	}
	s := &Stats{Prop: prop, Part: part, Rule: rule, Nontrivial: map[string]int{}, Classes: map[string]int{}, Excluded: map[string]int{}, Counters: map[string]int{}}
	statsTab[k] = s
	return s
}

// Record notes one executed case.
func (s *Stats) Record(hash string, nontrivial bool, classes []string, sample any) {
	s.mu.Lock()
	defer s.mu.Unlock()
	s.Evaluations++
	for _, c := range classes {
		s.Classes[c]++
	}
	if nontrivial && len(s.Nontrivial) >= 120000 {
		s.Counters["nontrivial-hashes-capped"]++
	} else if nontrivial {
		if _, seen := s.Nontrivial[hash]; !seen {
			s.Nontrivial[hash] = 1
			s.nsample++
			// keep the 1st, 2nd, 4th, 8th ... distinct non-trivial case (deterministic)
			if s.nsample&(s.nsample-1) == 0 && len(s.Samples) < 12 && sample != nil {
				s.Samples = append(s.Samples, sample)
			}
		}
	}
}

// Count bumps a named counter.
func (s *Stats) Count(name string, n int) {
	s.mu.Lock()
	s.Counters[name] += n
	s.mu.Unlock()
}

// Exclude counts a case left out because of a recorded known finding.
func (s *Stats) Exclude(name string) {
	s.mu.Lock()
	s.Excluded[name]++
	s.mu.Unlock()
}

// SetExhaustive marks the part as a completely enumerated finite space.
func (s *Stats) SetExhaustive(v bool) {
	s.mu.Lock()
	s.Exhaustive = v
	s.mu.Unlock()
}

// FlushStats writes all accumulators to $VERIF_STATS_DIR (one file per part).
func FlushStats() {
	dir := os.Getenv("VERIF_STATS_DIR")
	if dir == "" {
		return
	}
	statsMu.Lock()
	defer statsMu.Unlock()
	keys := make([]string, 0, len(statsTab))
	for k := range statsTab {
		keys = append(keys, k)
	}
	sort.Strings(keys)
	for _, k := range keys {
		s := statsTab[k]
		s.mu.Lock()
		b, err := json.Marshal(s)
		s.mu.Unlock()
		if err != nil {
			fmt.Fprintf(os.Stderr, "verif: cannot marshal stats %s: %v\n", k, err)
			continue
		}
		name := fmt.Sprintf("%s-%s-%d.json", s.Prop, s.Part, os.Getpid())
		_ = os.WriteFile(filepath.Join(dir, name), b, 0o644)
	}
}

// Failure is the replay file format.
type Failure struct {
	Prop  string          `json:"prop"`
	Part  string          `json:"part"`
	Error string          `json:"error"`
	Case  json.RawMessage `json:"case"`
}

// SaveFailure writes the failing case to $VERIF_FAIL_DIR/<prop>.json. During rapid's
// shrinking every failing attempt overwrites the file, and rapid re-runs the minimal
// case last, so the file ends up holding the shrunk case.
// InfraMarker in an error text says: a deadline or resource of the harness itself gave out;
// the case is not saved, so the driver reports the run as inconclusive (exit 2), not as a
// violation.
const InfraMarker = "[infrastructure]"

func SaveFailure(prop, part string, c any, err error) {
	dir := os.Getenv("VERIF_FAIL_DIR")
	if dir == "" {
		return
	}
	if err != nil && strings.Contains(err.Error(), InfraMarker) {
		fmt.Printf("INFRASTRUCTURE (not a verdict): %v\n", err)
		return
	}
	raw, merr := json.Marshal(c)
	if merr != nil {
		raw = []byte(fmt.Sprintf("%q", fmt.Sprint(c)))
	}
	f := Failure{Prop: prop, Part: part, Error: err.Error(), Case: raw}
	b, _ := json.MarshalIndent(f, "", " ")
	_ = os.WriteFile(filepath.Join(dir, prop+".json"), b, 0o644)
}

// KnownFinding prints the line the interface requires for a recorded finding that
// still reproduces.
func KnownFinding(prop, what string) {
	fmt.Printf("KNOWN-FINDING: property=%s %s\n", prop, what)
}

// LoadReplay reads the replay file named by $VERIF_REPLAY.
func LoadReplay() (*Failure, error) {
	p := os.Getenv("VERIF_REPLAY")
	if p == "" {
		return nil, nil
	}
	b, err := os.ReadFile(p)
	if err != nil {
		return nil, err
	}
	var f Failure
	if err := json.Unmarshal(b, &f); err != nil {
		return nil, err
	}
	return &f, nil
}

// Replayers maps "<prop>/<part>" to a function that re-runs executor+oracle on a saved
// case without involving rapid. Each test package registers its own.
var Replayers = map[string]func(raw json.RawMessage) error{}

// RunReplay implements TestReplay for a package: returns (ran, error).
func RunReplay() (string, bool, error) {
	f, err := LoadReplay()
	if err != nil {
		return "", true, fmt.Errorf("cannot load replay: %v", err)
	}
	if f == nil {
		return "", false, nil
	}
	r, ok := Replayers[f.Prop+"/"+f.Part]
	if !ok {
		return f.Prop + "/" + f.Part, false, nil
	}
	if err := r(f.Case); err != nil {
		fmt.Printf("REPLAY-FAIL property=%s part=%s: %v\n", f.Prop, f.Part, err)
		return f.Prop + "/" + f.Part, true, err
	}
	fmt.Printf("REPLAY-OK property=%s part=%s\n", f.Prop, f.Part)
	return f.Prop + "/" + f.Part, true, nil
}

// HistReplayer adapts a func(*HistCase) to the replay registry.
func HistReplayer(run func(c *HistCase) error) func(json.RawMessage) error {
	return func(raw json.RawMessage) error {
		var c HistCase
		if err := json.Unmarshal(raw, &c); err != nil {
			return err
		}
		return run(&c)
	}
}

// SampleOf converts a case to generic JSON for the evidence file.
func SampleOf(c any) any {
	b, _ := json.Marshal(c)
	var v any
	_ = json.Unmarshal(b, &v)
	return v
}

// IsKnown reports whether a finding id is listed in known_findings.txt (the driver
// passes the ids in $VERIF_KNOWN).
func IsKnown(id string) bool {
	for _, k := range strings.Split(os.Getenv("VERIF_KNOWN"), ",") {
		if k == id {
			return true
		}
	}
	return false
}

// Shard returns (i, n) from $VERIF_SHARD.
func Shard() (int, int) {
	parts := strings.Split(os.Getenv("VERIF_SHARD"), "/")
	if len(parts) != 2 {
		return 0, 1
	}
	i, _ := strconv.Atoi(parts[0])
	n, _ := strconv.Atoi(parts[1])
	if n <= 0 {
		return 0, 1
	}
	return i, n
}

// Thorough reports whether the thorough tier is running.
func Thorough() bool { return os.Getenv("VERIF_TIER") == "thorough" }

// QuietKlog silences klog (the witness logs an ERROR line per root mismatch).
func QuietKlog() {
	fs := flag.NewFlagSet("klog", flag.ContinueOnError)
	klog.InitFlags(fs)
	_ = fs.Set("logtostderr", "false")
	_ = fs.Set("alsologtostderr", "false")
	_ = fs.Set("stderrthreshold", "FATAL")
	klog.SetOutput(io.Discard)
}
