//go:build verif

package vlib

import (
	"database/sql"
	"database/sql/driver"
	"errors"
	"fmt"
	"sync"

	sqlite3 "github.com/mattn/go-sqlite3"
)

// Driver-level call points of the wrapped SQLite driver.
const (
	DOpen      = "drv:open"
	DBegin     = "drv:begin"
	DPrepare   = "drv:prepare"
	DQuery     = "drv:query"
	DExec      = "drv:exec"
	DRowsNext  = "drv:rowsnext"
	DStmtClose = "drv:stmtclose"
	DCommit    = "drv:commit"
	DRollback  = "drv:rollback"
)

// DrvHook is consulted before and after every driver call. phase is "before" or
// "after". A non-nil error returned in the "before" phase makes the call fail without
// taking effect.
type DrvHook func(op, phase string) error

// DrvCtl controls the wrapped driver (process-wide: database/sql drivers are
// registered once).
type DrvCtl struct {
	mu    sync.Mutex
	hook  DrvHook
	armed []FaultSpec
	seen  map[string]int
	Fired []string
	Trace []string
	ctx   string // interface-level call the driver is currently serving ("" unknown)
}

// SetContext names the interface-level call in progress.
func (c *DrvCtl) SetContext(point string) {
	c.mu.Lock()
	c.ctx = point
	c.mu.Unlock()
}

// Drv is the controller of the "sqlite3_verif" driver.
var Drv = &DrvCtl{seen: map[string]int{}}

func init() {
	sql.Register("sqlite3_verif", &wrapDriver{inner: &sqlite3.SQLiteDriver{}})
}

// SetHook installs a raw hook (crash injection, scheduling).
func (c *DrvCtl) SetHook(h DrvHook) {
	c.mu.Lock()
	c.hook = h
	c.mu.Unlock()
}

// Arm sets driver-level faults for the next request and clears the trace.
func (c *DrvCtl) Arm(fs []FaultSpec) {
	c.mu.Lock()
	c.armed = append([]FaultSpec{}, fs...)
	c.seen = map[string]int{}
	c.Fired = nil
	c.Trace = nil
	c.mu.Unlock()
}

// Disarm removes faults and returns what fired and the trace.
func (c *DrvCtl) Disarm() ([]string, []string) {
	c.mu.Lock()
	defer c.mu.Unlock()
	f, t := append([]string{}, c.Fired...), append([]string{}, c.Trace...)
	c.armed = nil
	return f, t
}

func (c *DrvCtl) at(op, phase string) error {
	c.mu.Lock()
	h := c.hook
	var ferr error
	if phase == "before" {
		c.Trace = append(c.Trace, op)
		n := c.seen[op]
		c.seen[op] = n + 1
		for _, f := range c.armed {
			if f.Point == op && f.Nth == n {
				tag := fmt.Sprintf("%s#%d", op, n)
				if c.ctx != "" {
					tag += "@" + c.ctx
				}
				c.Fired = append(c.Fired, tag)
				ferr = errors.New("verif: injected driver fault at " + op)
			}
		}
	}
	c.mu.Unlock()
	if h != nil {
		if err := h(op, phase); err != nil && ferr == nil {
			ferr = err
		}
	}
	return ferr
}

type wrapDriver struct{ inner driver.Driver }

func (d *wrapDriver) Open(name string) (driver.Conn, error) {
	if err := Drv.at(DOpen, "before"); err != nil {
		return nil, err
	}
	c, err := d.inner.Open(name)
	_ = Drv.at(DOpen, "after")
	if err != nil {
		return nil, err
	}
	return &wrapConn{inner: c}, nil
}

// wrapConn implements only the basic driver.Conn, so database/sql routes every
// statement through Prepare -> Exec|Query -> Stmt.Close.
type wrapConn struct{ inner driver.Conn }

func (c *wrapConn) Prepare(q string) (driver.Stmt, error) {
	if err := Drv.at(DPrepare, "before"); err != nil {
		return nil, err
	}
	s, err := c.inner.Prepare(q)
	_ = Drv.at(DPrepare, "after")
	if err != nil {
		return nil, err
	}
	return &wrapStmt{inner: s}, nil
}

func (c *wrapConn) Close() error { return c.inner.Close() }

func (c *wrapConn) Begin() (driver.Tx, error) {
	if err := Drv.at(DBegin, "before"); err != nil {
		return nil, err
	}
	tx, err := c.inner.Begin() //nolint:staticcheck // basic interface on purpose
	_ = Drv.at(DBegin, "after")
	if err != nil {
		return nil, err
	}
	return &wrapTx{inner: tx}, nil
}

type wrapStmt struct{ inner driver.Stmt }

func (s *wrapStmt) Close() error {
	ferr := Drv.at(DStmtClose, "before")
	err := s.inner.Close() // always forwarded: an injected close error must not leak the statement
	_ = Drv.at(DStmtClose, "after")
	if ferr != nil {
		return ferr
	}
	return err
}

func (s *wrapStmt) NumInput() int { return s.inner.NumInput() }

func (s *wrapStmt) Exec(args []driver.Value) (driver.Result, error) {
	if err := Drv.at(DExec, "before"); err != nil {
		return nil, err
	}
	r, err := s.inner.Exec(args) //nolint:staticcheck
	_ = Drv.at(DExec, "after")
	return r, err
}

func (s *wrapStmt) Query(args []driver.Value) (driver.Rows, error) {
	if err := Drv.at(DQuery, "before"); err != nil {
		return nil, err
	}
	r, err := s.inner.Query(args) //nolint:staticcheck
	_ = Drv.at(DQuery, "after")
	if err != nil {
		return nil, err
	}
	return &wrapRows{inner: r}, nil
}

// wrapRows lets the fetch of a result row fail (an I/O error while stepping).
type wrapRows struct{ inner driver.Rows }

func (r *wrapRows) Columns() []string { return r.inner.Columns() }
func (r *wrapRows) Close() error      { return r.inner.Close() }
func (r *wrapRows) Next(dest []driver.Value) error {
	if err := Drv.at(DRowsNext, "before"); err != nil {
		return err
	}
	err := r.inner.Next(dest)
	_ = Drv.at(DRowsNext, "after")
	return err
}

type wrapTx struct{ inner driver.Tx }

func (t *wrapTx) Commit() error {
	if err := Drv.at(DCommit, "before"); err != nil {
		// "commit failed before taking effect": like SQLite (and mattn's driver, which
		// rolls back after a failed COMMIT) the connection is left without an open
		// transaction.
		_ = t.inner.Rollback()
		return err
	}
	err := t.inner.Commit()
	_ = Drv.at(DCommit, "after")
	return err
}

func (t *wrapTx) Rollback() error {
	ferr := Drv.at(DRollback, "before")
	err := t.inner.Rollback() // always forwarded
	_ = Drv.at(DRollback, "after")
	if ferr != nil {
		return ferr
	}
	return err
}

// OpenVerifDB opens a database through the wrapped driver with the production pool
// setting (one connection).
func OpenVerifDB(dsn string) (*sql.DB, error) {
	db, err := sql.Open("sqlite3_verif", dsn)
	if err != nil {
		return nil, err
	}
	db.SetMaxOpenConns(1)
	return db, nil
}
