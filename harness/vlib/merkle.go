//go:build verif

// Package vlib is the shared library of the /verif harness. It is compiled into the
// witness module through a go build overlay; nothing here is part of the repository.
package vlib

import (
	"bytes"
	"crypto/sha256"
	"encoding/binary"
	"fmt"
	"math/bits"
	"sync"
)

// Hash is an RFC 6962 node hash.
type Hash = [32]byte

// LeafHash is the RFC 6962 leaf hash of data.
func LeafHash(data []byte) Hash {
	h := sha256.New()
	h.Write([]byte{0})
	h.Write(data)
	var r Hash
	h.Sum(r[:0])
	return r
}

// NodeHash is the RFC 6962 interior node hash.
func NodeHash(l, r Hash) Hash {
	h := sha256.New()
	h.Write([]byte{1})
	h.Write(l[:])
	h.Write(r[:])
	var o Hash
	h.Sum(o[:0])
	return o
}

// EmptyRoot is MTH({}).
func EmptyRoot() Hash { return sha256.Sum256(nil) }

// Branch is one history of a (possibly forking) log. Leaves [0, Fork) are those of
// Parent; leaves from Fork on are the branch's own. Leaves with index >= Filler (if
// Filler > 0) are a constant, which makes astronomically large trees computable.
type Branch struct {
	Key    string // canonical identity: ancestry and fork points
	Parent *Branch
	Fork   uint64
	Filler uint64 // 0 = no filler region

	mu     sync.Mutex
	nodes  map[nodeKey]Hash
	filler []Hash // perfect filler subtree hash per level
}

type nodeKey struct {
	level uint8
	index uint64
}

var (
	branchMu  sync.Mutex
	branchTab = map[string]*Branch{}
)

// RootBranch returns the honest trunk of the universe named seed.
func RootBranch(seed string, filler uint64) *Branch {
	return internBranch(&Branch{Key: fmt.Sprintf("u%s/f%d", seed, filler), Filler: filler})
}

// ForkAt returns the branch that shares the first fork leaves with b and then differs.
// tag distinguishes several forks at the same point.
func (b *Branch) ForkAt(fork uint64, tag int) *Branch {
	return internBranch(&Branch{Key: fmt.Sprintf("%s|%d:%d", b.Key, fork, tag), Parent: b, Fork: fork, Filler: b.Filler})
}

func internBranch(b *Branch) *Branch {
	branchMu.Lock()
	defer branchMu.Unlock()
	if got, ok := branchTab[b.Key]; ok {
		return got
	}
	b.nodes = map[nodeKey]Hash{}
	branchTab[b.Key] = b
	return b
}

// owner returns the branch in which leaf i was created.
func (b *Branch) owner(i uint64) *Branch {
	for b.Parent != nil && i < b.Fork {
		b = b.Parent
	}
	return b
}

// LeafData is the content of leaf i of this branch.
func (b *Branch) LeafData(i uint64) []byte {
	if b.Filler > 0 && i >= b.Filler {
		return []byte("filler")
	}
	o := b.owner(i)
	buf := make([]byte, 0, len(o.Key)+16)
	buf = append(buf, "leaf "...)
	buf = append(buf, o.Key...)
	buf = append(buf, ' ')
	buf = binary.BigEndian.AppendUint64(buf, i)
	return buf
}

// SameLeaf reports whether leaf i is the same entry in a and b (ground truth on
// entries, not on hashes).
func SameLeaf(a, b *Branch, i uint64) bool {
	if a.Filler > 0 && i >= a.Filler && b.Filler > 0 && i >= b.Filler {
		return true
	}
	if (a.Filler > 0 && i >= a.Filler) != (b.Filler > 0 && i >= b.Filler) {
		return false
	}
	return a.owner(i) == b.owner(i)
}

// CommonPrefix returns the largest n such that the first n leaves of a and b (limited
// to max) are the same entries.
func CommonPrefix(a, b *Branch, max uint64) uint64 {
	if a == b {
		return max
	}
	// ancestry chains; the trees agree exactly up to the smallest fork point on the
	// path between them.
	anc := map[*Branch]bool{}
	for x := a; x != nil; x = x.Parent {
		anc[x] = true
	}
	var lca *Branch
	for x := b; x != nil; x = x.Parent {
		if anc[x] {
			lca = x
			break
		}
	}
	if lca == nil {
		return 0
	}
	lim := max
	for x := a; x != lca; x = x.Parent {
		if x.Fork < lim {
			lim = x.Fork
		}
	}
	for x := b; x != lca; x = x.Parent {
		if x.Fork < lim {
			lim = x.Fork
		}
	}
	return lim
}

// IsPrefix reports whether tree (a, na) is a prefix of tree (b, nb) by entries.
func IsPrefix(a *Branch, na uint64, b *Branch, nb uint64) bool {
	if na > nb {
		return false
	}
	return CommonPrefix(a, b, na) >= na
}

func (b *Branch) fillerHash(level uint8) Hash {
	for len(b.filler) <= int(level) {
		if len(b.filler) == 0 {
			b.filler = append(b.filler, LeafHash([]byte("filler")))
		} else {
			p := b.filler[len(b.filler)-1]
			b.filler = append(b.filler, NodeHash(p, p))
		}
	}
	return b.filler[level]
}

// node returns the hash of the perfect subtree of 2^level leaves starting at
// index<<level.
func (b *Branch) node(level uint8, index uint64) Hash {
	lo := index << level
	hi := lo + (uint64(1) << level) // callers guarantee no overflow
	if b.Parent != nil && hi <= b.Fork {
		return b.Parent.node(level, index)
	}
	b.mu.Lock()
	if b.Filler > 0 && lo >= b.Filler {
		h := b.fillerHash(level)
		b.mu.Unlock()
		return h
	}
	if h, ok := b.nodes[nodeKey{level, index}]; ok {
		b.mu.Unlock()
		return h
	}
	b.mu.Unlock()
	var h Hash
	if level == 0 {
		h = LeafHash(b.LeafData(index))
	} else {
		h = NodeHash(b.node(level-1, index*2), b.node(level-1, index*2+1))
	}
	b.mu.Lock()
	b.nodes[nodeKey{level, index}] = h
	b.mu.Unlock()
	return h
}

// mth is MTH(D[lo:hi]) of RFC 6962 §2.1; lo must be aligned to the largest power of
// two below hi-lo (true for every range the recursive definitions produce).
func (b *Branch) mth(lo, hi uint64) Hash {
	n := hi - lo
	if n == 0 {
		return EmptyRoot()
	}
	if n&(n-1) == 0 {
		level := uint8(bits.TrailingZeros64(n))
		if lo&(n-1) == 0 {
			return b.node(level, lo>>level)
		}
	}
	if n == 1 {
		return LeafHash(b.LeafData(lo))
	}
	k := splitPoint(n)
	return NodeHash(b.mth(lo, lo+k), b.mth(lo+k, hi))
}

// splitPoint is the largest power of two strictly smaller than n (n >= 2).
func splitPoint(n uint64) uint64 {
	return uint64(1) << (bits.Len64(n-1) - 1)
}

// Root returns MTH(D[0:n]).
func (b *Branch) Root(n uint64) Hash { return b.mth(0, n) }

// Consistency returns PROOF(m, D[n]) of RFC 6962 §2.1.2 for 0 < m <= n. For m == 0
// or m == n the proof is empty.
func (b *Branch) Consistency(m, n uint64) [][]byte {
	if m == 0 || m >= n {
		return [][]byte{}
	}
	var out [][]byte
	b.subproof(m, 0, n, true, &out)
	if out == nil {
		out = [][]byte{}
	}
	return out
}

func (b *Branch) subproof(m, lo, hi uint64, whole bool, out *[][]byte) {
	n := hi - lo
	if m == n {
		if !whole {
			h := b.mth(lo, hi)
			*out = append(*out, h[:])
		}
		return
	}
	k := splitPoint(n)
	if m <= k {
		b.subproof(m, lo, lo+k, whole, out)
		h := b.mth(lo+k, hi)
		*out = append(*out, h[:])
	} else {
		b.subproof(m-k, lo+k, hi, false, out)
		h := b.mth(lo, lo+k)
		*out = append(*out, h[:])
	}
}

// VerifyConsistencyStrict is the RFC 9162 §2.1.4.2 verifier. Every node (roots and
// proof elements) must be exactly 32 bytes. It is written from the RFC text and shares
// no code with transparency-dev/merkle.
func VerifyConsistencyStrict(m, n uint64, root1, root2 []byte, proof [][]byte) bool {
	if len(root1) != 32 || len(root2) != 32 {
		return false
	}
	for _, p := range proof {
		if len(p) != 32 {
			return false
		}
	}
	if m > n {
		return false
	}
	if m == n {
		return len(proof) == 0 && bytes.Equal(root1, root2)
	}
	if m == 0 {
		// an empty tree is consistent with anything; by convention the proof is empty.
		return len(proof) == 0
	}
	path := make([][]byte, 0, len(proof)+1)
	// 1. If first is an exact power of 2, prepend first_hash to the path.
	if m&(m-1) == 0 {
		path = append(path, root1)
	}
	path = append(path, proof...)
	if len(path) == 0 {
		return false
	}
	fn, sn := m-1, n-1
	for fn&1 == 1 {
		fn >>= 1
		sn >>= 1
	}
	var fr, sr Hash
	copy(fr[:], path[0])
	copy(sr[:], path[0])
	for _, c := range path[1:] {
		if sn == 0 {
			return false
		}
		var ch Hash
		copy(ch[:], c)
		if fn&1 == 1 || fn == sn {
			fr = NodeHash(ch, fr)
			sr = NodeHash(ch, sr)
			for fn&1 == 0 && fn != 0 {
				fn >>= 1
				sn >>= 1
			}
		} else {
			sr = NodeHash(sr, ch)
		}
		fn >>= 1
		sn >>= 1
	}
	return sn == 0 && bytes.Equal(fr[:], root1) && bytes.Equal(sr[:], root2)
}

// NodeAt returns the hash of the perfect subtree of 2^level leaves starting at leaf
// index<<level (tlog's stored hash (level, index)).
func (b *Branch) NodeAt(level uint8, index uint64) Hash { return b.node(level, index) }
