//go:build verif

package bastion

import (
	bigint "math/big"
	"bytes"
	"encoding/base64"
	"encoding/json"
	"fmt"
	"io"
	"os"
	"regexp"
	"strconv"
	"strings"
	"testing"

	"github.com/transparency-dev/witness/internal/verifh/vlib"
	"github.com/transparency-dev/witness/internal/witness"
	"pgregory.net/rapid"
)

func TestMain(m *testing.M) {
	vlib.InstallMetrics()
	vlib.QuietKlog()
	if err := vlib.InstallTestCA(); err != nil { // before any TLS use: the stub bastion's certificate must be a system root
		panic(err)
	}
	initMetrics()
	code := m.Run()
	vlib.FlushStats()
	os.Exit(code)
}

func TestReplay(t *testing.T) {
	what, ran, err := vlib.RunReplay()
	if err != nil {
		t.Fatalf("replay of %s fails: %v", what, err)
	}
	if !ran {
		t.Skipf("nothing to replay in this binary (%s)", what)
	}
}

// ---------------------------------------------------------------------------------
// C11 — request and proof text formats round-trip

// BodyCase is one generated add-checkpoint body, either as a triple to write or as
// raw bytes.
type BodyCase struct {
	Kind   string   `json:"kind"` // roundtrip | malformed | raw
	Old    uint64   `json:"old"`
	Hashes [][]byte `json:"hashes"`
	Cp     []byte   `json:"cp"`
	CpPad  int      `json:"cp_pad,omitempty"` // >0: this many further deterministic bytes follow Cp (checkpoints up to several MiB without megabytes of case text)
	Writer string   `json:"writer"` // harness | feedbastion
	Chunk  int      `json:"chunk,omitempty"` // >0: the body is delivered to the parser in reads of at most this many bytes
	Defect string   `json:"defect,omitempty"`
	Raw    []byte   `json:"raw,omitempty"`
}

// fullCp is the checkpoint of a round-trip case: Cp followed by CpPad pattern bytes.
func (c *BodyCase) fullCp() []byte {
	if c.CpPad <= 0 {
		return c.Cp
	}
	out := make([]byte, 0, len(c.Cp)+c.CpPad)
	out = append(out, c.Cp...)
	for i := 0; i < c.CpPad; i++ {
		b := byte('a' + (i*7+i/251)%26)
		if i%97 == 96 {
			b = '\n'
		}
		out = append(out, b)
	}
	return out
}

func writeBody(old uint64, hashes [][]byte, cp []byte, writer string) []byte {
	if writer == "feedbastion" {
		// the logic of cmd/feedbastion/main.go:116-121 with the size parameterised
		body := fmt.Sprintf("old %d\n", old)
		for _, p := range hashes {
			body += base64.StdEncoding.EncodeToString(p) + "\n"
		}
		body += "\n"
		body += string(cp)
		return []byte(body)
	}
	var b bytes.Buffer
	b.WriteString("old ")
	b.WriteString(strconv.FormatUint(old, 10))
	b.WriteByte('\n')
	for _, h := range hashes {
		b.WriteString(base64.StdEncoding.EncodeToString(h))
		b.WriteByte('\n')
	}
	b.WriteByte('\n')
	b.Write(cp)
	return b.Bytes()
}

// chunkReader hands the body out in small pieces, as a network connection does.
type chunkReader struct {
	b []byte
	n int
}

func (c *chunkReader) Read(p []byte) (int, error) {
	if len(c.b) == 0 {
		return 0, io.EOF
	}
	n := c.n
	if n > len(p) {
		n = len(p)
	}
	if n > len(c.b) {
		n = len(c.b)
	}
	copy(p, c.b[:n])
	c.b = c.b[n:]
	return n, nil
}

var oldLineRE = regexp.MustCompile(`^old (0|[1-9][0-9]*)$`)

// refParse is the strict reference parser written from the c2sp tlog-witness text:
// "old N\n", base64 lines, an empty line, then the checkpoint. tolerated reports that
// the input is in the region where the code may be more lenient than the reference
// and the property makes no claim (CR characters, leading zeros / sign on the number,
// lines longer than bufio's 4096-byte buffer).
func refParse(body []byte) (old uint64, hashes [][]byte, cp []byte, ok bool, tolerated bool) {
	rest := body
	line := func() ([]byte, bool) {
		i := bytes.IndexByte(rest, '\n')
		if i < 0 {
			return nil, false
		}
		l := rest[:i]
		rest = rest[i+1:]
		return l, true
	}
	head := body
	if i := bytes.Index(body, []byte("\n\n")); i >= 0 {
		head = body[:i+2]
	}
	if bytes.ContainsRune(head, '\r') {
		tolerated = true
	}
	for _, l := range bytes.Split(head, []byte("\n")) {
		if len(l) > 4000 {
			tolerated = true
		}
	}
	l, okl := line()
	if !okl {
		return 0, nil, nil, false, tolerated
	}
	if m := regexp.MustCompile(`^old [+]?0*[0-9]+$`).Match(l); m && !oldLineRE.Match(l) {
		tolerated = true
	}
	if !oldLineRE.Match(l) {
		return 0, nil, nil, false, tolerated
	}
	v, err := strconv.ParseUint(string(l[4:]), 10, 64)
	if err != nil {
		return 0, nil, nil, false, tolerated
	}
	hashes = [][]byte{}
	for {
		l, okl := line()
		if !okl {
			return 0, nil, nil, false, tolerated
		}
		if len(l) == 0 {
			break
		}
		h, err := base64.StdEncoding.DecodeString(string(l))
		if err != nil {
			return 0, nil, nil, false, tolerated
		}
		hashes = append(hashes, h)
	}
	return v, hashes, rest, true, tolerated
}

func hashesEqual(a, b [][]byte) bool {
	if len(a) != len(b) {
		return false
	}
	for i := range a {
		if !bytes.Equal(a[i], b[i]) {
			return false
		}
	}
	return true
}

// f5Region: the old-size line is "old <digits><junk>" that Sscanf partly understands.
var f5RE = regexp.MustCompile(`^old [0-9]+[^0-9\n]`)

func runBodyCase(c *BodyCase, st *vlib.Stats) (nt bool, classes []string, err error) {
	defer func() {
		if p := recover(); p != nil {
			nt, classes, err = true, []string{"panic"}, fmt.Errorf("PANIC while parsing a body (kind %s, %d hashes): %v", c.Kind, len(c.Hashes), p)
		}
	}()
	var body []byte
	switch c.Kind {
	case "roundtrip":
		body = writeBody(c.Old, c.Hashes, c.fullCp(), c.Writer)
	default:
		body = c.Raw
	}
	if vlib.IsKnown("F5") && f5RE.Match(body) {
		st.Exclude("F5")
		return false, []string{"excluded-F5"}, nil
	}
	var rd io.Reader = bytes.NewReader(body)
	if c.Chunk > 0 {
		rd = &chunkReader{b: body, n: c.Chunk}
	}
	gotOld, gotHashes, gotCp, err := parseBody(rd)
	switch c.Kind {
	case "roundtrip":
		nontrivial := len(c.Hashes) >= 1 && bytes.Contains(c.Cp, []byte("\n\n"))
		cls := fmt.Sprintf("roundtrip:%s:hashes=%d", c.Writer, min(len(c.Hashes), 3))
		if c.CpPad > 0 {
			cls += ":bigcp"
			if len(body) > 1<<20 {
				cls += ">1MiB"
			}
		}
		if err != nil {
			return nontrivial, []string{cls}, fmt.Errorf("well-formed body (old=%d, %d hashes, %d checkpoint bytes) refused: %v", c.Old, len(c.Hashes), len(c.Cp), err)
		}
		if want := c.fullCp(); gotOld != c.Old || !hashesEqual(gotHashes, c.Hashes) || !bytes.Equal(gotCp, want) {
			return nontrivial, []string{cls}, fmt.Errorf("body does not parse back: wrote (old=%d, %d hashes, cp of %d bytes %q), read (old=%d, %d hashes, cp of %d bytes %q)", c.Old, len(c.Hashes), len(want), trunc(want), gotOld, len(gotHashes), len(gotCp), trunc(gotCp))
		}
		return nontrivial, []string{cls}, nil
	case "malformed":
		cls := "malformed:" + c.Defect
		if err == nil {
			return true, []string{cls}, fmt.Errorf("malformed body (%s) %q accepted as (old=%d, %d hashes, cp %q)", c.Defect, trunc(body), gotOld, len(gotHashes), gotCp)
		}
		if gotOld != 0 || gotHashes != nil || gotCp != nil {
			return true, []string{cls}, fmt.Errorf("malformed body (%s) refused but data returned with the error: old=%d hashes=%v cp=%q", c.Defect, gotOld, gotHashes, gotCp)
		}
		return true, []string{cls}, nil
	default: // raw: differential against the reference parser
		rOld, rHashes, rCp, rok, tol := refParse(body)
		if tol {
			return false, []string{"raw:tolerance-region"}, nil
		}
		cls := "raw:ref-rejects"
		if rok {
			cls = "raw:ref-accepts"
		}
		if rok != (err == nil) {
			return rok, []string{cls}, fmt.Errorf("body %q: reference parser accepts=%v, parseBody error=%v (read old=%d, %d hashes)", trunc(body), rok, err, gotOld, len(gotHashes))
		}
		if rok && (gotOld != rOld || !hashesEqual(gotHashes, rHashes) || !bytes.Equal(gotCp, rCp)) {
			return rok, []string{cls}, fmt.Errorf("body %q: parseBody read (old=%d, %d hashes, cp %q), reference (old=%d, %d hashes, cp %q)", trunc(body), gotOld, len(gotHashes), gotCp, rOld, len(rHashes), rCp)
		}
		if !rok && (gotOld != 0 || gotHashes != nil || gotCp != nil) {
			return rok, []string{cls}, fmt.Errorf("body %q refused but data returned with the error", trunc(body))
		}
		return rok, []string{cls}, nil
	}
}

func trunc(b []byte) string {
	if len(b) > 200 {
		return string(b[:200]) + "..."
	}
	return string(b)
}

var edgeU64 = []uint64{0, 1, 9, 10, 255, 256, 1<<31 - 1, 1 << 31, 1<<32 - 1, 1 << 32, 1<<53 + 1, 1<<63 - 1, 1 << 63, 1<<63 + 1, ^uint64(0) - 1, ^uint64(0)}

func genOld(t *rapid.T) uint64 {
	if rapid.Bool().Draw(t, "oldedge") {
		return rapid.SampledFrom(edgeU64).Draw(t, "old")
	}
	return rapid.Uint64().Draw(t, "old")
}

func genHashes(t *rapid.T, minLen int) [][]byte {
	n := rapid.IntRange(0, 64).Draw(t, "nhashes")
	if vlib.Pct(t, 30, "nhashes_edge") {
		n = rapid.SampledFrom([]int{0, 1, 2, 31, 32, 33, 62, 63, 64}).Draw(t, "nhashes_edge_val")
	}
	hs := make([][]byte, 0, n)
	for i := 0; i < n; i++ {
		var l int
		if rapid.Bool().Draw(t, "h32") {
			l = 32
		} else {
			l = rapid.IntRange(minLen, 64).Draw(t, "hlen")
		}
		hs = append(hs, rapid.SliceOfN(rapid.Byte(), l, l).Draw(t, "hash"))
	}
	return hs
}

func genCpBytes(t *rapid.T) []byte {
	switch rapid.IntRange(0, 4).Draw(t, "cpkind") {
	case 0:
		return []byte("example.com/log\n5\nAAAAAAAAAAAAAAAAAAAAAAAAAAAAAAAAAAAAAAAAAAA=\n\n— k AAAAAAAAAA==\n")
	case 1:
		return rapid.SliceOfN(rapid.Byte(), 0, 300).Draw(t, "cpbytes")
	case 2:
		parts := rapid.SliceOfN(rapid.SampledFrom([]string{"\n", "\n\n", "\r\n", "\x00", "\xff\xfe", "old 5", "line", "AAAA", "— sig", " "}), 0, 12).Draw(t, "cpparts")
		return []byte(strings.Join(parts, ""))
	case 3:
		return []byte{}
	default:
		return []byte(rapid.StringN(0, 200, -1).Draw(t, "cpstr"))
	}
}

var malformedDefects = []string{"no-old-prefix", "no-digits", "negative", "overflow", "sci", "hex", "underscore", "trailing-junk", "trailing-space-junk", "old-only", "wrong-case", "space-before", "missing-separator", "eof-in-proof", "eof-after-size", "bad-base64", "raw-base64-nopad", "urlsafe-base64", "empty-body", "double-space", "float"}

func genMalformed(t *rapid.T) *BodyCase {
	d := rapid.SampledFrom(malformedDefects).Draw(t, "defect")
	old := genOld(t)
	hashes := genHashes(t, 1)
	cp := genCpBytes(t)
	good := string(writeBody(old, hashes, cp, "harness"))
	restAfterSize := good[strings.Index(good, "\n")+1:]
	num := strconv.FormatUint(old, 10)
	var raw string
	switch d {
	case "no-old-prefix":
		raw = rapid.SampledFrom([]string{num + "\n", "new " + num + "\n", "ol " + num + "\n", "old" + num + "\n", "\n"}).Draw(t, "pfx") + restAfterSize
	case "no-digits":
		raw = "old \n" + restAfterSize
	case "negative":
		raw = "old -" + num + "\n" + restAfterSize
	case "overflow":
		big := rapid.SampledFrom([]string{"18446744073709551616", "99999999999999999999", "184467440737095516150", "1" + strings.Repeat("0", 40)}).Draw(t, "big")
		switch rapid.IntRange(0, 3).Draw(t, "bigk") {
		case 1:
			// 2^64 + d: every value just past the largest old size
			v := new(bigint.Int).Add(new(bigint.Int).Lsh(bigint.NewInt(1), 64), bigint.NewInt(int64(rapid.IntRange(0, 3000).Draw(t, "bigd"))))
			big = v.String()
		case 2:
			// 2^64-1 (or a value near it) with further digits appended
			v := new(bigint.Int).Sub(new(bigint.Int).Lsh(bigint.NewInt(1), 64), bigint.NewInt(int64(rapid.IntRange(1, 40).Draw(t, "bigm"))))
			big = v.String() + rapid.StringMatching("[0-9]{1,3}").Draw(t, "bigtail")
		case 3:
			// k * 2^64 + small: wraps to a small number in 64-bit arithmetic
			v := new(bigint.Int).Mul(new(bigint.Int).Lsh(bigint.NewInt(1), 64), bigint.NewInt(int64(rapid.IntRange(1, 9).Draw(t, "bigmul"))))
			v.Add(v, bigint.NewInt(int64(rapid.IntRange(0, 50).Draw(t, "bigadd"))))
			big = v.String()
		}
		raw = "old " + big + "\n" + restAfterSize
	case "sci":
		raw = "old 1e3\n" + restAfterSize
	case "hex":
		raw = "old 0x10\n" + restAfterSize
	case "underscore":
		raw = "old 1_000\n" + restAfterSize
	case "trailing-junk":
		raw = "old " + num + rapid.SampledFrom([]string{"x", "junk", ".", ".0", "L", ";"}).Draw(t, "junk") + "\n" + restAfterSize
	case "trailing-space-junk":
		raw = "old " + num + " " + rapid.SampledFrom([]string{"junk", "7", "old 5", "-"}).Draw(t, "junk") + "\n" + restAfterSize
	case "old-only":
		raw = "old\n" + restAfterSize
	case "wrong-case":
		raw = "OLD " + num + "\n" + restAfterSize
	case "space-before":
		raw = " old " + num + "\n" + restAfterSize
	case "float":
		raw = "old " + num + ".5\n" + restAfterSize
	case "double-space":
		raw = "old  " + num + "\n" + restAfterSize
	case "missing-separator":
		// size line, proof lines, then EOF: no blank line at all
		var b strings.Builder
		b.WriteString("old " + num + "\n")
		for _, h := range hashes {
			b.WriteString(base64.StdEncoding.EncodeToString(h) + "\n")
		}
		raw = b.String()
	case "eof-in-proof":
		var b strings.Builder
		b.WriteString("old " + num + "\n")
		hs := append([][]byte{{1, 2, 3}}, hashes...)
		for _, h := range hs {
			b.WriteString(base64.StdEncoding.EncodeToString(h) + "\n")
		}
		s := b.String()
		raw = s[:len(s)-1] // last proof line not even terminated
	case "eof-after-size":
		raw = rapid.SampledFrom([]string{"old " + num + "\n", "old " + num}).Draw(t, "eof")
	case "bad-base64":
		bad := rapid.SampledFrom([]string{"!!!!", "AAA", "A", "AAAA=", "AA=A", "====", "AAAA AAAA", "AAAA\tAAAA", "not base64"}).Draw(t, "bad")
		raw = "old " + num + "\n" + bad + "\n" + restAfterSize
	case "raw-base64-nopad":
		raw = "old " + num + "\n" + base64.RawStdEncoding.EncodeToString([]byte{1, 2, 3, 4}) + "\n" + restAfterSize
	case "urlsafe-base64":
		raw = "old " + num + "\n" + base64.URLEncoding.EncodeToString([]byte{0xfb, 0xff, 0xfe, 0xfb, 0xff, 0xfe}) + "\n" + restAfterSize
	case "empty-body":
		raw = ""
	}
	return &BodyCase{Kind: "malformed", Defect: d, Raw: []byte(raw)}
}

const ruleC11 = "(a) round trips of generated (old size, 0-64 hashes of 1-64 bytes, arbitrary checkpoint bytes) through the harness's writer and a copy of cmd/feedbastion's; (b) bodies malformed by construction (21 defect classes) must be refused with zero data; (c) generated byte strings differentially against a strict reference parser; (d) Proof marshal/unmarshal round trips (into a fresh Proof value and into values that held shorter, equal and longer lists before) of 0-64 hashes of 0-64 bytes. non-trivial = (a) >=1 hash and a checkpoint containing a blank line, (b) any, (c) reference accepts, (d) any; distinct by case hash"

func caseHash(c any) string {
	b, _ := json.Marshal(c)
	return fmt.Sprintf("%x", vlib.LeafHash(b))[:16]
}

func TestC11Body(t *testing.T) {
	st := vlib.StatsFor("C11", "body", ruleC11)
	rapid.Check(t, func(rt *rapid.T) {
		var c *BodyCase
		switch vlib.Uniform(rt, 10, "kind") {
		case 0, 1, 2, 3:
			c = &BodyCase{Kind: "roundtrip", Old: genOld(rt), Hashes: genHashes(rt, 1), Cp: genCpBytes(rt), Writer: rapid.SampledFrom([]string{"harness", "feedbastion"}).Draw(rt, "writer")}
			if rapid.Bool().Draw(rt, "chunked") {
				c.Chunk = rapid.SampledFrom([]int{1, 2, 7, 16, 64, 100, 1000, 4095, 4096, 4097}).Draw(rt, "chunk")
			}
			// "any checkpoint bytes": now and then a checkpoint far beyond any buffer size
			if vlib.Pct(rt, 4, "bigcp") {
				c.CpPad = rapid.SampledFrom([]int{3000, 4096, 5000, 16 << 10, 65535, 65536, 1<<20 - 4200, 1<<20 - 1, 1 << 20, 1<<20 + 1, 2 << 20, 5 << 20}).Draw(rt, "cppad") + rapid.IntRange(-40, 40).Draw(rt, "cppadj")
				if c.Chunk > 0 && c.Chunk < 1000 {
					c.Chunk = 4096
				}
			}
		case 4, 5, 6:
			c = genMalformed(rt)
		default:
			// raw: a well-formed body with byte-level edits, or free-form lines
			if rapid.Bool().Draw(rt, "rawedit") {
				b := writeBody(genOld(rt), genHashes(rt, 1), genCpBytes(rt), "harness")
				nedit := rapid.IntRange(1, 3).Draw(rt, "nedit")
				for i := 0; i < nedit && len(b) > 0; i++ {
					pos := rapid.IntRange(0, len(b)-1).Draw(rt, "pos")
					switch rapid.IntRange(0, 2).Draw(rt, "edit") {
					case 0:
						b[pos] = rapid.Byte().Draw(rt, "byte")
					case 1:
						b = append(b[:pos], b[pos+1:]...)
					default:
						b = append(b[:pos], append([]byte{rapid.SampledFrom([]byte{'\n', ' ', '0', 'A', '=', '-', 'x'}).Draw(rt, "ins")}, b[pos:]...)...)
					}
				}
				c = &BodyCase{Kind: "raw", Raw: b}
			} else {
				parts := rapid.SliceOfN(rapid.SampledFrom([]string{"old ", "old", "0", "5", "18446744073709551615", "18446744073709551616", "\n", "\n\n", " ", "AAAA", "AAA=", "AA==", "A", "=", "x", "-1", "+", "cp\n1\nAAAA\n", "\x00"}), 0, 14).Draw(rt, "parts")
				c = &BodyCase{Kind: "raw", Raw: []byte(strings.Join(parts, ""))}
			}
		}
		nt, classes, err := runBodyCase(c, st)
		st.Record(caseHash(c), nt, classes, vlib.SampleOf(c))
		if err != nil {
			vlib.SaveFailure("C11", "body", c, err)
			rt.Fatalf("C11 violated: %v", err)
		}
	})
}

// ProofCase is a proof round trip.
type ProofCase struct {
	Hashes [][]byte `json:"hashes"`
	Text   *string  `json:"text,omitempty"` // if set: unmarshal/marshal direction
}

func runProofCase(c *ProofCase, st *vlib.Stats) (nt bool, classes []string, err error) {
	defer func() {
		if p := recover(); p != nil {
			nt, classes, err = true, []string{"panic"}, fmt.Errorf("PANIC in Proof.Marshal/Unmarshal: %v", p)
		}
	}()
	if c.Text == nil {
		if len(c.Hashes) == 0 && vlib.IsKnown("F6") {
			st.Exclude("F6")
			return false, []string{"excluded-F6"}, nil
		}
		p := witness.Proof(c.Hashes)
		s := p.Marshal()
		var q witness.Proof
		if err := q.Unmarshal([]byte(s)); err != nil {
			return true, []string{fmt.Sprintf("marshal-unmarshal:n=%d", min(len(c.Hashes), 3))}, fmt.Errorf("proof of %d hashes marshals to %q, which does not unmarshal: %v", len(c.Hashes), trunc([]byte(s)), err)
		}
		if !hashesEqual(q, c.Hashes) {
			return true, nil, fmt.Errorf("proof of %d hashes reads back as %d hashes (%q)", len(c.Hashes), len(q), trunc([]byte(s)))
		}
		// "reads back as the list that was written" whatever the destination held before:
		// the same text into Proof values that were used for shorter, equal and longer lists
		// (with spare capacity, too)
		for _, pre := range []int{1, len(c.Hashes), len(c.Hashes) + 1, len(c.Hashes) + 4, 2*len(c.Hashes) + 7} {
			used := make(witness.Proof, pre, pre+3)
			for i := range used {
				used[i] = []byte{0xEE, byte(i)}
			}
			if err := used.Unmarshal([]byte(s)); err != nil {
				return true, nil, fmt.Errorf("proof of %d hashes (%q) does not unmarshal into a Proof value that held %d hashes before: %v", len(c.Hashes), trunc([]byte(s)), pre, err)
			}
			if !hashesEqual(used, c.Hashes) {
				return true, nil, fmt.Errorf("proof of %d hashes reads back as %d hashes when the destination Proof held %d hashes before (%q)", len(c.Hashes), len(used), pre, trunc([]byte(s)))
			}
		}
		return true, []string{fmt.Sprintf("marshal-unmarshal:n=%d", min(len(c.Hashes), 3))}, nil
	}
	var q witness.Proof
	err = q.Unmarshal([]byte(*c.Text))
	if err != nil {
		if len(q) != 0 {
			return false, []string{"unmarshal-rejects"}, fmt.Errorf("Unmarshal(%q) failed but left %d hashes behind", trunc([]byte(*c.Text)), len(q))
		}
		return false, []string{"unmarshal-rejects"}, nil
	}
	// The property only promises write -> read. In the other direction an accepted text
	// may be a non-canonical spelling (spare base64 bits), so only stability is required:
	// what was read must survive another write -> read.
	var q2 witness.Proof
	if err := q2.Unmarshal([]byte(q.Marshal())); err != nil || !hashesEqual(q, q2) {
		return true, []string{"unmarshal-marshal"}, fmt.Errorf("proof read from %q does not survive marshal+unmarshal (err %v)", trunc([]byte(*c.Text)), err)
	}
	return true, []string{"unmarshal-marshal"}, nil
}

func TestC11Proof(t *testing.T) {
	st := vlib.StatsFor("C11", "proof", ruleC11)
	rapid.Check(t, func(rt *rapid.T) {
		c := &ProofCase{}
		if vlib.Uniform(rt, 4, "dir") < 3 {
			c.Hashes = genHashes(rt, 0)
			if len(c.Hashes) == 0 {
				c.Hashes = [][]byte{}
			}
		} else {
			var s string
			if rapid.Bool().Draw(rt, "fromvalid") {
				s = witness.Proof(genHashes(rt, 0)).Marshal()
				if len(s) > 0 && rapid.Bool().Draw(rt, "edit") {
					pos := rapid.IntRange(0, len(s)-1).Draw(rt, "pos")
					s = s[:pos] + string(rapid.SampledFrom([]byte{'\n', '=', 'A', ' ', '-'}).Draw(rt, "ins")) + s[pos+1:]
				}
			} else {
				s = strings.Join(rapid.SliceOfN(rapid.SampledFrom([]string{"AAAA", "AA==", "AAA=", "A", "\n", "=", "b25l", " "}), 0, 10).Draw(rt, "parts"), "")
			}
			c.Text = &s
		}
		nt, classes, err := runProofCase(c, st)
		st.Record(caseHash(c), nt, classes, vlib.SampleOf(c))
		if err != nil {
			vlib.SaveFailure("C11", "proof", c, err)
			rt.Fatalf("C11 violated: %v", err)
		}
	})
}

// TestC11Known re-runs the recorded inputs of listed known findings.
func TestC11Known(t *testing.T) {
	st := vlib.StatsFor("C11", "known", "dedicated probes of listed known findings")
	if vlib.IsKnown("F5") {
		for _, raw := range []string{"old 5 junk\n\ncp", "old 1e3\n\ncp", "old 0x10\n\ncp"} {
			o, _, _, err := parseBody(strings.NewReader(raw))
			st.Record(raw, true, []string{"known-probe:F5"}, raw)
			if err == nil {
				vlib.KnownFinding("C11", fmt.Sprintf("F5: malformed old-size line %q is accepted and read as old=%d", strings.SplitN(raw, "\n", 2)[0], o))
			}
		}
	}
	if vlib.IsKnown("F6") {
		var q witness.Proof
		st.Record("empty", true, []string{"known-probe:F6"}, "Proof{}")
		if err := q.Unmarshal([]byte(witness.Proof{}.Marshal())); err != nil {
			vlib.KnownFinding("C11", "F6: the empty proof marshals to \"\" which Unmarshal refuses: "+err.Error())
		}
	}
}

func init() {
	vlib.Replayers["C11/body"] = func(raw json.RawMessage) error {
		var c BodyCase
		if err := json.Unmarshal(raw, &c); err != nil {
			return err
		}
		_, _, err := runBodyCase(&c, vlib.StatsFor("C11", "body", ruleC11))
		return err
	}
	vlib.Replayers["C11/proof"] = func(raw json.RawMessage) error {
		var c ProofCase
		if err := json.Unmarshal(raw, &c); err != nil {
			return err
		}
		_, _, err := runProofCase(&c, vlib.StatsFor("C11", "proof", ruleC11))
		return err
	}
}
