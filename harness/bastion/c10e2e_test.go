//go:build verif

package bastion

import (
	"context"
	"crypto/ed25519"
	"crypto/sha256"
	"fmt"
	"strconv"
	"sync"
	"testing"
	"time"

	"github.com/transparency-dev/witness/internal/config"
	"github.com/transparency-dev/witness/internal/verifh/vlib"
	"github.com/transparency-dev/witness/internal/witness"
	"golang.org/x/time/rate"
	"pgregory.net/rapid"
)

// ---------------------------------------------------------------------------------
// C10 end to end: exported FeedBastion connected to a stub bastion over TLS 1.3 + h2

// swapWitness is the feeder.Witness handed to FeedBastion; the real witness behind it
// is replaced for every case so that cases are self-contained.
type swapWitness struct {
	mu sync.Mutex
	w  *witness.Witness
}

func (s *swapWitness) get() *witness.Witness {
	s.mu.Lock()
	defer s.mu.Unlock()
	return s.w
}

func (s *swapWitness) GetLatestCheckpoint(ctx context.Context, logID string) ([]byte, error) {
	return adapter{s.get()}.GetLatestCheckpoint(ctx, logID)
}

func (s *swapWitness) Update(ctx context.Context, logID string, oldSize uint64, newCP []byte, proof [][]byte) ([]byte, error) {
	return s.get().Update(ctx, logID, oldSize, newCP, proof)
}

var e2eLogs = []vlib.LogSpec{
	{Origin: "example.com/log", KeyLabel: "log0", KeyName: "logkey"},
	{Origin: "rekor.example - 123", KeyLabel: "log0", KeyName: "logkey"},
	{Origin: "лог.example/α", KeyLabel: "log2", KeyName: "logkey2"},
}
var e2eForks = []vlib.ForkSpec{{Parent: 0, At: 3}, {Parent: 0, At: 0}}

type e2eFixture struct {
	stub *vlib.StubBastion
	sw   *swapWitness
	stop context.CancelFunc
	done chan error
}

var (
	e2eOnce sync.Once
	e2eFix  *e2eFixture
	e2eErr  error
)

func getE2E() (*e2eFixture, error) {
	e2eOnce.Do(func() {
		stub, err := vlib.NewStubBastion()
		if err != nil {
			e2eErr = err
			return
		}
		hc := &vlib.HistCase{Prop: "C10", Storage: "mem", Seed: "A", Forks: e2eForks, Logs: e2eLogs, WKeys: vlib.ProdWKeys}
		e := vlib.NewEnv(hc)
		var logs []config.Log
		for i, l := range hc.Logs {
			lc, err := config.NewLog(l.Origin, e.LogKeys[i].VKey(), "http://unused.example/")
			if err != nil {
				e2eErr = err
				return
			}
			logs = append(logs, lc)
		}
		seed := sha256.Sum256([]byte("verif bastion backend key"))
		ctx, cancel := context.WithCancel(context.Background())
		f := &e2eFixture{stub: stub, sw: &swapWitness{}, stop: cancel, done: make(chan error, 1)}
		go func() {
			f.done <- FeedBastion(ctx, Config{Addr: stub.Addr, Logs: logs, BastionKey: ed25519.NewKeyFromSeed(seed[:]), WitnessVerifier: witnessCosigVerifier(e), Limits: RequestLimits{TotalPerSecond: rate.Limit(1e9)}}, f.sw)
		}()
		if err := stub.WaitConnected(120 * time.Second); err != nil {
			cancel()
			e2eErr = err
			return
		}
		e2eFix = f
	})
	return e2eFix, e2eErr
}

// e2eTarget sends the requests down the reverse connection.
type e2eTarget struct {
	f *e2eFixture
	w *witness.Witness
}

func (t e2eTarget) Update(ctx context.Context, logID string, old uint64, cp []byte, proof [][]byte, st *vlib.Step) {
	defect := ""
	if st.Op.Body != nil {
		defect = st.Op.Body.Kind
	}
	code, hdr, body, err := t.f.stub.Post(buildBody(old, proof, cp, defect))
	if err != nil {
		st.HTTPStatus = -1
		st.Verdict = "transport-error: " + err.Error()
		return
	}
	st.HTTPStatus, st.HTTPCType, st.HTTPBody = code, hdr.Get("Content-Type"), body
	if code == 200 {
		st.Verdict = vlib.VAccepted
	} else {
		st.Verdict = "http-" + strconv.Itoa(code)
	}
}
func (t e2eTarget) GetCheckpoint(id string) ([]byte, error) { return t.w.GetCheckpoint(id) }
func (t e2eTarget) GetLogs() ([]string, error)               { return t.w.GetLogs() }

func runC10E2E(c *vlib.HistCase, stats *vlib.Stats) (bool, []string, error) {
	f, err := getE2E()
	if err != nil {
		return false, nil, fmt.Errorf("harness: e2e fixture: %v", err)
	}
	e := vlib.NewEnv(c)
	w, _, closer, err := e.NewWitness()
	if err != nil {
		return false, nil, fmt.Errorf("harness: %v", err)
	}
	defer closer()
	f.sw.mu.Lock()
	f.sw.w = w
	f.sw.mu.Unlock()
	return runC10On(e, e2eTarget{f: f, w: w}, stats)
}

func TestC10E2E(t *testing.T) {
	st := vlib.StatsFor("C10", "e2e", "the same request generator and oracle as part seq, but through the exported FeedBastion connected to a stub bastion: TLS 1.3 with ALPN bastion/0 dialled by the witness, HTTP/2 served by the witness over that reverse connection, 16 KiB body cap as wired in connectAndServe; "+ruleC10)
	if _, err := getE2E(); err != nil {
		t.Fatalf("harness: %v", err)
	}
	rapid.Check(t, func(rt *rapid.T) {
		c := vlib.GenHist(rt, profC10)
		c.Logs, c.Forks, c.WKeys = e2eLogs, e2eForks, vlib.ProdWKeys
		for i := range c.Ops {
			if c.Ops[i].Log >= len(c.Logs) {
				c.Ops[i].Log %= len(c.Logs)
			}
			if c.Ops[i].Cp.Origin >= 0 {
				c.Ops[i].Cp.Origin = -2
				c.Ops[i].Cp.OriginLit = "not.configured.example/log"
			}
			if c.Ops[i].Cp.Signer >= len(c.Logs) {
				c.Ops[i].Cp.Signer = -2
			}
			for k := range c.Ops[i].Cp.Extra {
				c.Ops[i].Cp.Extra[k].Key %= 2
			}
			if c.Ops[i].Cp.Branch > len(c.Forks) {
				c.Ops[i].Cp.Branch = len(c.Forks)
			}
			if c.Ops[i].Proof.Branch != nil && *c.Ops[i].Proof.Branch > len(c.Forks) {
				b := len(c.Forks)
				c.Ops[i].Proof.Branch = &b
			}
			if vlib.Pct(rt, 12, "bodydefect") {
				c.Ops[i].Body = &vlib.Mutation{Kind: rapid.SampledFrom(bodyDefects).Draw(rt, "defect")}
			}
		}
		nt, classes, err := runC10E2E(c, st)
		st.Record(c.Hash(), nt, classes, vlib.SampleOf(c))
		if err != nil {
			vlib.SaveFailure("C10", "e2e", c, err)
			rt.Fatalf("C10 violated end to end: %v", err)
		}
	})
}

func init() {
	vlib.Replayers["C10/e2e"] = vlib.HistReplayer(func(c *vlib.HistCase) error {
		_, _, err := runC10E2E(c, vlib.StatsFor("C10", "e2e", ruleC10))
		return err
	})
}
