//go:build verif

package bastion

import (
	"bytes"
	"context"
	"encoding/base64"
	"encoding/json"
	"fmt"
	"net/http"
	"net/http/httptest"
	"os"
	"strconv"
	"strings"
	"testing"
	"time"

	"github.com/transparency-dev/formats/log"
	"github.com/transparency-dev/witness/internal/config"
	"github.com/transparency-dev/witness/internal/verifh/vlib"
	"github.com/transparency-dev/witness/internal/witness"
	"golang.org/x/mod/sumdb/note"
	"golang.org/x/time/rate"
	"google.golang.org/grpc/codes"
	"google.golang.org/grpc/status"
	"pgregory.net/rapid"
)

// adapter mirrors omniwitness.witnessAdapter (which cannot be imported from here).
type adapter struct{ w *witness.Witness }

func (a adapter) GetLatestCheckpoint(ctx context.Context, logID string) ([]byte, error) {
	cp, err := a.w.GetCheckpoint(logID)
	if err != nil && status.Code(err) == codes.NotFound {
		return nil, os.ErrNotExist
	}
	return cp, err
}

func (a adapter) Update(ctx context.Context, logID string, oldSize uint64, newCP []byte, proof [][]byte) ([]byte, error) {
	return a.w.Update(ctx, logID, oldSize, newCP, proof)
}

// newHandler builds the handler exactly as FeedBastion does (bastion_feeder.go:69-77)
// and wraps it as connectAndServe does (16 KiB body cap).
func newHandler(e *vlib.Env, w *witness.Witness, limit rate.Limit) (*addHandler, http.Handler) {
	var logs []config.Log
	for i, l := range e.Case.Logs {
		lc, err := config.NewLog(l.Origin, e.LogKeys[i].VKey(), "http://unused.example/")
		if err != nil {
			panic(err)
		}
		logs = append(logs, lc)
	}
	h := &addHandler{
		w:           adapter{w},
		logs:        make(map[string]config.Log),
		witVerifier: witnessCosigVerifier(e),
		limiter:     rate.NewLimiter(limit, int(limit)),
	}
	for _, l := range logs {
		h.logs[l.ID] = l
	}
	return h, http.MaxBytesHandler(h, 16*1024)
}

func witnessCosigKey(e *vlib.Env) vlib.WitnessKey {
	for _, wk := range e.WKeys {
		if wk.Kind == vlib.WKCosig {
			return wk
		}
	}
	panic("case without a cosignature/v1 witness key")
}

func witnessCosigVerifier(e *vlib.Env) note.Verifier {
	return witnessCosigKey(e).Verifier()
}

// bastionTarget sends requests through the HTTP handler.
type bastionTarget struct {
	e *vlib.Env
	h http.Handler
	w *witness.Witness
}

func buildBody(old uint64, proof [][]byte, cp []byte, defect string) []byte {
	good := writeBody(old, proof, cp, "harness")
	num := strconv.FormatUint(old, 10)
	rest := string(good[bytes.IndexByte(good, '\n')+1:])
	switch defect {
	case "":
		return good
	case "no-old-prefix":
		return []byte(num + "\n" + rest)
	case "trailing-junk":
		return []byte("old " + num + " junk\n" + rest)
	case "sci":
		return []byte("old 1e3\n" + rest)
	case "overflow":
		return []byte("old 18446744073709551616\n" + rest)
	case "negative":
		return []byte("old -1\n" + rest)
	case "missing-separator":
		var b strings.Builder
		b.WriteString("old " + num + "\n")
		for _, h := range proof {
			b.WriteString(base64.StdEncoding.EncodeToString(h) + "\n")
		}
		return []byte(b.String())
	case "bad-base64":
		return []byte("old " + num + "\n!!notbase64!!\n" + rest)
	case "empty":
		return []byte{}
	case "cp-no-newline":
		return writeBody(old, proof, []byte("checkpoint without any newline"), "harness")
	case "cp-empty":
		return writeBody(old, proof, []byte{}, "harness")
	case "oversize":
		// pad the proof so that the body exceeds the 16 KiB cap before the checkpoint ends
		var pad [][]byte
		for i := 0; i < 400; i++ {
			pad = append(pad, bytes.Repeat([]byte{byte(i)}, 32))
		}
		return writeBody(old, append(pad, proof...), cp, "harness")
	}
	return good
}

func (t bastionTarget) Update(ctx context.Context, logID string, old uint64, cp []byte, proof [][]byte, st *vlib.Step) {
	defect := ""
	if st.Op.Body != nil {
		defect = st.Op.Body.Kind
	}
	body := buildBody(old, proof, cp, defect)
	req := httptest.NewRequest(http.MethodPost, "/", bytes.NewReader(body))
	rec := httptest.NewRecorder()
	t.h.ServeHTTP(rec, req)
	st.HTTPStatus = rec.Code
	st.HTTPCType = rec.Header().Get("Content-Type")
	st.HTTPBody = rec.Body.Bytes()
	if rec.Code == 200 {
		st.Verdict = vlib.VAccepted
	} else {
		st.Verdict = "http-" + strconv.Itoa(rec.Code)
	}
}

func (t bastionTarget) GetCheckpoint(id string) ([]byte, error) { return t.w.GetCheckpoint(id) }
func (t bastionTarget) GetLogs() ([]string, error)               { return t.w.GetLogs() }

var documented = map[int]bool{200: true, 400: true, 403: true, 404: true, 409: true, 422: true, 429: true, 500: true}

const ruleC10 = "request sequences through the add-checkpoint handler (built as FeedBastion builds it, 16 KiB cap) with a real witness: well-formed bodies of every verdict class and malformed bodies, states reached only through the endpoint; non-trivial = sequence containing a request answered while the origin already has a checkpoint, or a 4xx other than 400-malformed; distinct by case hash"

var profC10 = vlib.Profile{
	Prop: "C10", MinLogs: 1, MaxLogs: 3, MinOps: 2, MaxOps: 24,
	Storages: []string{"mem", "sql"}, MaxJump: 300, OtherLogPct: 25, Decorate: 12, SharedKeys: true, MixOldPct: 20, NonCanonPct: 8, ECDSAPct: 20,
	Weights: map[string]int{"grow": 30, "refresh": 8, "fork": 8, "wrongold": 10, "badproof": 10, "replay": 3, "garbage": 5, "unkroot": 2, "wrongkey": 6, "wrongorigin": 4, "unknownlog": 3, "smaller": 4, "decorated": 2, "mismatch": 6, "zero": 1, "echo": 4},
}

var bodyDefects = []string{"no-old-prefix", "trailing-junk", "sci", "overflow", "negative", "missing-separator", "bad-base64", "empty", "cp-no-newline", "cp-empty", "oversize"}

func runC10(c *vlib.HistCase, stats *vlib.Stats) (bool, []string, error) {
	e := vlib.NewEnv(c)
	w, _, closer, err := e.NewWitness()
	if err != nil {
		return false, nil, fmt.Errorf("harness: %v", err)
	}
	defer closer()
	_, h := newHandler(e, w, rate.Limit(1e9))
	return runC10On(e, bastionTarget{e: e, h: h, w: w}, stats)
}

// runC10On plays the case against any target that answers over HTTP and applies the
// C10 oracle.
func runC10On(e *vlib.Env, t vlib.Target, stats *vlib.Stats) (bool, []string, error) {
	c := e.Case
	_ = c
	var err error
	wk := witnessCosigKey(e)
	nontrivial := false
	var classes []string
	_, err = e.Exec(t, vlib.RunOpts{AfterStep: func(e *vlib.Env, _ vlib.Target, st *vlib.Step) error {
		code := st.HTTPStatus
		if !documented[code] {
			return fmt.Errorf("undocumented status %d", code)
		}
		// which log does the body name? (first line of the checkpoint)
		named := -1
		if i := bytes.IndexByte(st.Req.Cp, '\n'); i >= 0 {
			id := log.ID(string(st.Req.Cp[:i]))
			for li, lid := range e.LogIDs {
				if lid == id {
					named = li
				}
			}
		}
		want, why := 0, ""
		wantSizeBody := false
		switch {
		case st.Op.Body != nil:
			want, why = 400, "malformed body ("+st.Op.Body.Kind+")"
		case len(buildBody(st.Req.Old, st.Req.Proof, st.Req.Cp, "")) > 16*1024:
			want, why = 400, "body over the 16 KiB cap"
		case !bytes.Contains(st.Req.Cp, []byte("\n")):
			want, why = 400, "checkpoint without newline"
		case named < 0:
			want, why = 404, "unknown origin"
		case named != st.Req.LogIdx:
			why = "outside: checkpoint names another configured log than the generator addressed"
		default:
			ex := vlib.ExpectVerdict(st)
			if !ex.InClaim {
				why = "outside: " + ex.Why
				break
			}
			why = ex.Verdict
			switch ex.Verdict {
			case vlib.VAccepted:
				want = 200
			case vlib.VNoSig:
				want = 403
			case vlib.VOldTooBig:
				want = 400
			case vlib.VStale:
				want, wantSizeBody = 409, true
			case vlib.VMismatch:
				want = 409
			case vlib.VBadProof:
				want = 422
			case vlib.VUnknownLog:
				want = 404
			}
		}
		if vlib.IsKnown("F3") && want == 403 {
			stats.Exclude("F3")
			want = 0
		}
		classes = append(classes, fmt.Sprintf("%s->%d", why, code))
		if st.PreHeld.Present || (code >= 400 && code != 400) || (code == 400 && st.Op.Body == nil) {
			nontrivial = true
		}
		if want != 0 && code != want {
			return fmt.Errorf("request (%s; %s): status %d, want %d (body %q)", st.Op.Note, why, code, want, trunc(st.HTTPBody))
		}
		if code == 409 {
			isSize := st.HTTPCType == "text/x.tlog.size"
			if wantSizeBody {
				wantBody := fmt.Sprintf("%d\n", st.PreHeld.Size)
				if !isSize || string(st.HTTPBody) != wantBody {
					return fmt.Errorf("stale old size: 409 with Content-Type %q body %q, want text/x.tlog.size and %q (the witness's true size)", st.HTTPCType, st.HTTPBody, wantBody)
				}
			} else if want == 409 && isSize {
				return fmt.Errorf("root mismatch answered with a text/x.tlog.size body %q", st.HTTPBody)
			}
		}
		if code == 200 {
			text, _, ok := vlib.SplitNote(st.Req.Cp)
			if !ok {
				return fmt.Errorf("200 for bytes without note shape")
			}
			lines := strings.SplitAfter(string(st.HTTPBody), "\n")
			if len(lines) > 0 && lines[len(lines)-1] == "" {
				lines = lines[:len(lines)-1]
			}
			if len(lines) == 0 {
				return fmt.Errorf("200 with empty body")
			}
			for _, l := range lines {
				_, sigs, ok := vlib.SplitNote([]byte("x\n\n" + l))
				if !ok || len(sigs) != 1 {
					return fmt.Errorf("200 body line %q is not a signature line", l)
				}
				if _, ok := wk.K.VerifyCosig(text, sigs[0]); !ok {
					return fmt.Errorf("200 body line %q does not verify under the witness's published key over the submitted checkpoint text", l)
				}
			}
			stored := e.ScanCheckpoint(st.Post.Cps[log.ID(strings.SplitN(text, "\n", 2)[0])])
			if stored.Text != text {
				return fmt.Errorf("200 but the witness does not hold the submitted text afterwards")
			}
		} else if !st.Pre.Equal(st.Post) {
			return fmt.Errorf("status %d but witness state changed", code)
		}
		return nil
	}})
	return nontrivial, classes, err
}

func TestC10Seq(t *testing.T) {
	st := vlib.StatsFor("C10", "seq", ruleC10)
	rapid.Check(t, func(rt *rapid.T) {
		c := vlib.GenHist(rt, profC10)
		for i := range c.Ops {
			// the endpoint derives the log from the checkpoint's origin line: keep the
			// generator's addressed log and the origin in agreement
			if c.Ops[i].Cp.Origin >= 0 {
				c.Ops[i].Cp.Origin = -2
				c.Ops[i].Cp.OriginLit = "not.configured.example/log"
			}
			if vlib.Pct(rt, 12, "bodydefect") {
				c.Ops[i].Body = &vlib.Mutation{Kind: rapid.SampledFrom(bodyDefects).Draw(rt, "defect")}
			}
		}
		nt, classes, err := runC10(c, st)
		st.Record(c.Hash(), nt, classes, vlib.SampleOf(c))
		if err != nil {
			vlib.SaveFailure("C10", "seq", c, err)
			rt.Fatalf("C10 violated: %v", err)
		}
	})
}

// TestC10BigSizes: the witness's "true current size" in the stale answer, for sizes that
// do not fit a signed 64-bit integer (a log may sign any size; first use accepts it).
func TestC10BigSizes(t *testing.T) {
	st := vlib.StatsFor("C10", "bigsizes", "fixed two/three-step sequences through the endpoint: first use of a log-signed checkpoint of size S in {2^31, 2^32+1, 2^53+1, 2^62, 2^63-1, 2^63, 2^63+5, 2^64-2, 2^64-1}, then stale, too-large and mismatching requests; non-trivial = any")
	for _, s := range []uint64{1 << 31, 1<<32 + 1, 1<<53 + 1, 1 << 62, 1<<63 - 1, 1 << 63, 1<<63 + 5, ^uint64(0) - 1, ^uint64(0)} {
		for _, storage := range []string{"mem", "sql"} {
			big := vlib.CpSpec{Branch: 0, Size: vlib.SizeSpec{Rel: "abs", Abs: s}, Root: "rand", RootTag: 1, Origin: -1, Signer: -1}
			other := big
			other.RootTag = 2
			c := &vlib.HistCase{Prop: "C10", Storage: storage, Seed: "A", Logs: []vlib.LogSpec{{Origin: "example.com/log", KeyLabel: "log0", KeyName: "logkey"}}, WKeys: vlib.ProdWKeys}
			c.Ops = []vlib.Op{
				{Kind: "update", Note: "first-use-big", Cp: big, Old: vlib.SizeSpec{Rel: "abs"}, Proof: vlib.ProofSpec{Kind: "empty"}},
				{Kind: "update", Note: "stale-big", Cp: big, Old: vlib.SizeSpec{Rel: "abs", Abs: 5}, Proof: vlib.ProofSpec{Kind: "empty"}},
				{Kind: "update", Note: "stale-big-1", Cp: big, Old: vlib.SizeSpec{Rel: "cur", N: -1}, Proof: vlib.ProofSpec{Kind: "empty"}},
				{Kind: "update", Note: "mismatch-big", Cp: other, Old: vlib.SizeSpec{Rel: "cur"}, Proof: vlib.ProofSpec{Kind: "empty"}},
				{Kind: "update", Note: "refresh-big", Cp: big, Old: vlib.SizeSpec{Rel: "cur"}, Proof: vlib.ProofSpec{Kind: "empty"}},
			}
			nt, classes, err := runC10(c, st)
			st.Record(c.Hash(), true || nt, classes, vlib.SampleOf(c))
			if err != nil {
				vlib.SaveFailure("C10", "bigsizes", c, err)
				t.Fatalf("C10 violated (size %d): %v", s, err)
			}
		}
	}
}

// --- rate limit -----------------------------------------------------------------------

// RateCase: limiter (R, burst R), N valid requests fired back to back.
type RateCase struct {
	R int `json:"r"`
	N int `json:"n"`
}

func runRate(c *RateCase) (bool, []string, error) {
	hc := &vlib.HistCase{Prop: "C10", Storage: "mem", Seed: "A", Logs: []vlib.LogSpec{{Origin: "example.com/log", KeyLabel: "log0", KeyName: "logkey"}}, WKeys: vlib.ProdWKeys}
	e := vlib.NewEnv(hc)
	w, _, closer, err := e.NewWitness()
	if err != nil {
		return false, nil, fmt.Errorf("harness: %v", err)
	}
	defer closer()
	_, h := newHandler(e, w, rate.Limit(c.R))
	id := e.LogIDs[0]
	root := e.Branches[0].Root(3)
	text := vlib.CheckpointText("example.com/log", 3, root[:], nil)
	cp := vlib.Note(text, e.LogKeys[0].SigLine(text))
	before := vlib.Metrics.Snapshot("witness_update_request")
	start := time.Now()
	served, limited := 0, 0
	for i := 0; i < c.N; i++ {
		old := uint64(3)
		if served == 0 {
			old = 0
		}
		req := httptest.NewRequest(http.MethodPost, "/", bytes.NewReader(writeBody(old, nil, cp, "harness")))
		rec := httptest.NewRecorder()
		h.ServeHTTP(rec, req)
		switch rec.Code {
		case 429:
			limited++
			if rec.Body.Len() != 0 {
				return true, nil, fmt.Errorf("429 with a body %q", rec.Body.Bytes())
			}
		case 200:
			served++
		default:
			return true, nil, fmt.Errorf("request %d: unexpected status %d", i, rec.Code)
		}
	}
	elapsed := time.Since(start).Seconds()
	after := vlib.Metrics.Snapshot("witness_update_request")
	attempts := vlib.Diff(before, after)["witness_update_request{"+id+"}"]
	cls := []string{fmt.Sprintf("R=%d,limited=%v", c.R, limited > 0)}
	if attempts != served {
		return true, cls, fmt.Errorf("R=%d N=%d: %d requests answered 200 but the witness saw %d update attempts (rate-limited requests must not be processed)", c.R, c.N, served, attempts)
	}
	minServed := c.N
	if c.R < minServed {
		minServed = c.R
	}
	maxServed := float64(c.R)*(1+elapsed) + 1
	if served < minServed {
		return true, cls, fmt.Errorf("R=%d N=%d: only %d requests served, the initial burst allows %d", c.R, c.N, served, minServed)
	}
	if float64(served) > maxServed {
		return true, cls, fmt.Errorf("R=%d N=%d: %d requests served in %.3fs, the limiter allows at most %.1f (429 expected for the rest)", c.R, c.N, served, elapsed, maxServed)
	}
	return limited > 0, cls, nil
}

func TestC10Rate(t *testing.T) {
	st := vlib.StatsFor("C10", "rate", "bursts of N valid requests against a limiter (R/s, burst R), R in 1..50, N in 1..R+60; sound bounds on the number served and witness attempt counter == number served; non-trivial = burst in which >=1 request was rate-limited")
	rapid.Check(t, func(rt *rapid.T) {
		r := rapid.IntRange(1, 50).Draw(rt, "R")
		c := &RateCase{R: r, N: rapid.IntRange(1, r+60).Draw(rt, "N")}
		nt, classes, err := runRate(c)
		st.Record(caseHash(c), nt, classes, vlib.SampleOf(c))
		if err != nil {
			vlib.SaveFailure("C10", "rate", c, err)
			rt.Fatalf("C10 violated: %v", err)
		}
	})
}

// TestC10Known re-runs the recorded input of listed known findings.
func TestC10Known(t *testing.T) {
	if !vlib.IsKnown("F3") {
		t.Skip("no known findings listed for C10")
	}
	st := vlib.StatsFor("C10", "known", "dedicated probes of listed known findings")
	hc := &vlib.HistCase{Prop: "C10", Storage: "mem", Seed: "A", Logs: []vlib.LogSpec{{Origin: "example.com/log", KeyLabel: "log0", KeyName: "logkey"}}, WKeys: vlib.ProdWKeys}
	hc.Ops = []vlib.Op{{Kind: "update", Note: "wrongkey", Cp: vlib.CpSpec{Branch: 0, Size: vlib.SizeSpec{Rel: "abs", Abs: 3}, Origin: -1, Signer: -2}, Old: vlib.SizeSpec{Rel: "abs"}, Proof: vlib.ProofSpec{Kind: "empty"}}}
	e := vlib.NewEnv(hc)
	w, _, closer, err := e.NewWitness()
	if err != nil {
		t.Fatal(err)
	}
	defer closer()
	_, h := newHandler(e, w, rate.Limit(1e9))
	steps, _ := e.Exec(bastionTarget{e: e, h: h, w: w}, vlib.RunOpts{})
	st.Record("F3", true, []string{"known-probe:F3"}, vlib.SampleOf(hc))
	if len(steps) == 1 && steps[0].HTTPStatus != 403 {
		vlib.KnownFinding("C10", fmt.Sprintf("F3: a checkpoint without a valid log signature is answered %d instead of 403", steps[0].HTTPStatus))
	}
}

func init() {
	vlib.Replayers["C10/seq"] = vlib.HistReplayer(func(c *vlib.HistCase) error {
		_, _, err := runC10(c, vlib.StatsFor("C10", "seq", ruleC10))
		return err
	})
	vlib.Replayers["C10/bigsizes"] = vlib.Replayers["C10/seq"]
	vlib.Replayers["C10/rate"] = func(raw json.RawMessage) error {
		var c RateCase
		if err := json.Unmarshal(raw, &c); err != nil {
			return err
		}
		_, _, err := runRate(&c)
		return err
	}
}
