//go:build verif

package bastion

import (
	"bytes"
	"encoding/json"
	"fmt"
	"net/http"
	"net/http/httptest"
	"strings"
	"testing"

	"github.com/transparency-dev/witness/internal/verifh/vlib"
	"github.com/transparency-dev/witness/internal/witness"
	"golang.org/x/time/rate"
	"pgregory.net/rapid"
)

// ---------------------------------------------------------------------------------
// C19 (endpoint / parser half) — arbitrary bytes never crash the endpoint or parsers

// fuzzFixture is a witness in a known state behind the real handler; rebuilt for every
// input so that no state leaks between iterations.
type fuzzFixture struct {
	e      *vlib.Env
	w      *witness.Witness
	h      http.Handler
	closer func()
}

func newFuzzFixture() (*fuzzFixture, error) {
	hc := &vlib.HistCase{Prop: "C19", Storage: "mem", Seed: "A", Forks: []vlib.ForkSpec{{Parent: 0, At: 2}},
		Logs: []vlib.LogSpec{{Origin: "example.com/log", KeyLabel: "log0", KeyName: "logkey"}, {Origin: "example.com/empty", KeyLabel: "log1", KeyName: "logkey1"}}, WKeys: vlib.ProdWKeys}
	e := vlib.NewEnv(hc)
	w, _, closer, err := e.NewWitness()
	if err != nil {
		return nil, err
	}
	_, h := newHandler(e, w, rate.Limit(1e9))
	f := &fuzzFixture{e: e, w: w, h: h, closer: closer}
	// log 0 holds size 5
	if code, _ := f.post(f.valid(0, 0, 0, 5)); code != 200 {
		closer()
		return nil, fmt.Errorf("fixture: planting failed with status %d", code)
	}
	return f, nil
}

func (f *fuzzFixture) cp(log, branch int, size uint64) []byte {
	root := f.e.Branches[branch].Root(size)
	text := vlib.CheckpointText(f.e.Case.Logs[log].Origin, size, root[:], nil)
	return vlib.Note(text, f.e.LogKeys[log].SigLine(text))
}

func (f *fuzzFixture) valid(log, branch int, old, size uint64) []byte {
	var proof [][]byte
	if old > 0 && old < size {
		proof = f.e.Branches[branch].Consistency(old, size)
	}
	return writeBody(old, proof, f.cp(log, branch, size), "harness")
}

func (f *fuzzFixture) post(body []byte) (int, *httptest.ResponseRecorder) {
	req := httptest.NewRequest(http.MethodPost, "/", bytes.NewReader(body))
	rec := httptest.NewRecorder()
	f.h.ServeHTTP(rec, req)
	return rec.Code, rec
}

// seedBodies: one valid request per verdict class plus hostile constants.
func seedBodies(f *fuzzFixture) map[string][]byte {
	s := map[string][]byte{
		"accept-growth":    f.valid(0, 0, 5, 9),
		"accept-refresh":   f.valid(0, 0, 5, 5),
		"accept-first-use": f.valid(1, 0, 0, 4),
		"old-too-large":    f.valid(0, 0, 12, 9),
		"stale":            f.valid(0, 0, 3, 9),
		"root-mismatch":    f.valid(0, 1, 5, 5),
		"bad-proof":        writeBody(5, [][]byte{bytes.Repeat([]byte{7}, 32)}, f.cp(0, 0, 9), "harness"),
		"fork":             f.valid(0, 1, 5, 9),
		"bad-signature":    writeBody(5, nil, vlib.Note(vlib.CheckpointText("example.com/log", 9, make([]byte, 32), nil), vlib.NewKey("logkey", "stranger").SigLine(vlib.CheckpointText("example.com/log", 9, make([]byte, 32), nil))), "harness"),
		"unknown-origin":   writeBody(0, nil, vlib.Note("nobody.example/log\n1\nAAAAAAAAAAAAAAAAAAAAAAAAAAAAAAAAAAAAAAAAAAA=\n", "— k AAAAAAAAAA==\n"), "harness"),
		"proof-63-lines":   writeBody(5, manyHashes(63), f.cp(0, 0, 9), "harness"),
		"proof-64-lines":   writeBody(5, manyHashes(64), f.cp(0, 0, 9), "harness"),
		"proof-65-lines":   writeBody(5, manyHashes(65), f.cp(0, 0, 9), "harness"),
		"proof-200-lines":  writeBody(5, manyHashes(200), f.cp(0, 0, 9), "harness"),
		"proof-1-byte-x300": writeBody(5, manyShort(300), f.cp(0, 0, 9), "harness"),
		"empty":            {},
		"only-old":         []byte("old 0\n"),
		"huge-old":         []byte("old 18446744073709551615\n\nexample.com/log\n18446744073709551615\nAAAA\n\n— logkey AAAAAAAA\n"),
		"overflow-old":     []byte("old 18446744073709551616\n\nx\n"),
		"no-newline-cp":    []byte("old 0\n\nexample.com/log"),
		"nul":              []byte("old 0\n\n\x00\n\x00\n"),
		"long-line":        append([]byte("old 0\n"), append(bytes.Repeat([]byte("A"), 5000), []byte("\n\nexample.com/log\n1\n\n")...)...),
		"many-sigs":        writeBody(5, nil, append(f.cp(0, 0, 5), bytes.Repeat([]byte("— junk AAAAAAAAAA==\n"), 120)...), "harness"),
		"size-2^63":        writeBody(5, nil, signedText(f, "example.com/log\n9223372036854775808\nAAAAAAAAAAAAAAAAAAAAAAAAAAAAAAAAAAAAAAAAAAA=\n"), "harness"),
		"size-2^64-1":      writeBody(5, nil, signedText(f, "example.com/log\n18446744073709551615\nAAAAAAAAAAAAAAAAAAAAAAAAAAAAAAAAAAAAAAAAAAA=\n"), "harness"),
		"size-overflow":    writeBody(5, nil, signedText(f, "example.com/log\n18446744073709551616\nAAAAAAAAAAAAAAAAAAAAAAAAAAAAAAAAAAAAAAAAAAA=\n"), "harness"),
		"root-5-bytes":     writeBody(5, nil, signedText(f, "example.com/log\n9\nAAAAAAA=\n"), "harness"),
		"root-33-bytes":    writeBody(5, nil, signedText(f, "example.com/log\n9\nAAAAAAAAAAAAAAAAAAAAAAAAAAAAAAAAAAAAAAAAAAAA\n"), "harness"),
		"root-empty":       writeBody(5, nil, signedText(f, "example.com/log\n9\n\n"), "harness"),
		"two-line-text":    writeBody(5, nil, signedText(f, "example.com/log\n9\n"), "harness"),
		"one-line-text":    writeBody(0, nil, signedText(f, "example.com/empty\n"), "harness"),
		"neg-size":         writeBody(5, nil, signedText(f, "example.com/log\n-1\nAAAA\n"), "harness"),
	}
	return s
}

func manyHashes(n int) [][]byte {
	var hs [][]byte
	for i := 0; i < n; i++ {
		hs = append(hs, bytes.Repeat([]byte{byte(i)}, 32))
	}
	return hs
}

func manyShort(n int) [][]byte {
	var hs [][]byte
	for i := 0; i < n; i++ {
		hs = append(hs, []byte{byte(i)})
	}
	return hs
}

func signedText(f *fuzzFixture, text string) []byte {
	li := 0
	if strings.HasPrefix(text, "example.com/empty") {
		li = 1
	}
	return vlib.Note(text, f.e.LogKeys[li].SigLine(text))
}

// checkEndpoint posts one body to a fresh fixture and applies the oracle. reached
// reports whether the body got past parsing to the witness.
func checkEndpoint(body []byte) (reached bool, class string, err error) {
	f, ferr := newFuzzFixture()
	if ferr != nil {
		return false, "", fmt.Errorf("harness: %v", ferr)
	}
	defer f.closer()
	before := f.e.TakeSnapshot(vlib.WitnessTarget{W: f.w})
	attemptsBefore := vlib.Metrics.Snapshot("witness_update_request")
	var code int
	var rec *httptest.ResponseRecorder
	func() {
		defer func() {
			if p := recover(); p != nil {
				err = fmt.Errorf("PANIC in the add-checkpoint handler: %v", p)
			}
		}()
		code, rec = f.post(body)
	}()
	if err != nil {
		return false, "panic", err
	}
	reached = len(vlib.Diff(attemptsBefore, vlib.Metrics.Snapshot("witness_update_request"))) > 0
	class = fmt.Sprintf("status-%d", code)
	if !documented[code] {
		return reached, class, fmt.Errorf("undocumented status %d for body %q", code, trunc(body))
	}
	after := f.e.TakeSnapshot(vlib.WitnessTarget{W: f.w})
	if code == 200 {
		_, _, cp, perr := parseBody(bytes.NewReader(body))
		if perr != nil {
			return reached, class, fmt.Errorf("200 for a body that does not parse: %q", trunc(body))
		}
		text, _, ok := vlib.SplitNote(cp)
		if !ok {
			return reached, class, fmt.Errorf("200 for a checkpoint without note shape: %q", trunc(body))
		}
		li := -1
		for i, l := range f.e.Case.Logs {
			if strings.HasPrefix(text, l.Origin+"\n") {
				li = i
			}
		}
		if li < 0 || !f.e.LogKeys[li].VerifyPlain(text, findSig(cp, f.e.LogKeys[li])) {
			return reached, class, fmt.Errorf("200 for a checkpoint that is not signed by a configured log: %q", trunc(body))
		}
		wk := witnessCosigKey(f.e)
		for _, l := range strings.SplitAfter(rec.Body.String(), "\n") {
			if l == "" {
				continue
			}
			_, sigs, ok := vlib.SplitNote([]byte("x\n\n" + l))
			if !ok || len(sigs) != 1 {
				return reached, class, fmt.Errorf("200 body line %q is not a signature line", l)
			}
			if _, ok := wk.K.VerifyCosig(text, sigs[0]); !ok {
				return reached, class, fmt.Errorf("200 body line does not verify over the submitted text")
			}
		}
	} else if !before.Equal(after) {
		return reached, class, fmt.Errorf("status %d but the witness state changed (body %q)", code, trunc(body))
	}
	return reached, class, nil
}

func findSig(cp []byte, k *vlib.Key) vlib.SigEntry {
	_, sigs, _ := vlib.SplitNote(cp)
	for _, s := range sigs {
		if s.Name == k.Name && s.Hash == k.Hash() {
			return s
		}
	}
	return vlib.SigEntry{}
}

// FuzzCase is the replay format of the endpoint/parser fuzz parts.
type FuzzCase struct {
	Target string `json:"target"` // handler | parsebody | proof
	Data   []byte `json:"data"`
}

func runFuzzCase(c *FuzzCase) (bool, string, error) {
	switch c.Target {
	case "handler":
		return checkEndpoint(c.Data)
	case "parsebody":
		var err error
		func() {
			defer func() {
				if p := recover(); p != nil {
					err = fmt.Errorf("PANIC in parseBody: %v", p)
				}
			}()
			bc := &BodyCase{Kind: "raw", Raw: c.Data}
			_, _, err = runBodyCase(bc, vlib.StatsFor("C19", "parse-aux", "differential oracle of C11 applied inside the C19 targets"))
		}()
		_, _, _, ok, _ := refParse(c.Data)
		return ok, "parsebody", err
	default:
		var err error
		var okp bool
		func() {
			defer func() {
				if p := recover(); p != nil {
					err = fmt.Errorf("PANIC in Proof.Unmarshal: %v", p)
				}
			}()
			s := string(c.Data)
			pc := &ProofCase{Text: &s}
			okp, _, err = runProofCase(pc, vlib.StatsFor("C19", "parse-aux", "differential oracle of C11 applied inside the C19 targets"))
		}()
		return okp, "proof", err
	}
}

const ruleC19ep = "byte strings sent to the add-checkpoint handler (real witness holding a checkpoint, state rebuilt per input, 16 KiB cap) and to parseBody / Proof.Unmarshal: seeds of every verdict class and hostile constants, structured mutations of them, random bytes; oracle: no panic, documented status, 200 only with a valid cosignature over a log-signed text, state unchanged otherwise, plus C11's differential oracle; non-trivial = the input got past parsing (handler: reached the witness; parsers: reference parser accepts); distinct by input hash"

func mutateBytes(rt *rapid.T, b []byte) []byte {
	b = append([]byte{}, b...)
	n := rapid.IntRange(1, 4).Draw(rt, "nmut")
	for i := 0; i < n; i++ {
		if len(b) == 0 {
			b = append(b, rapid.Byte().Draw(rt, "b"))
			continue
		}
		pos := rapid.IntRange(0, len(b)-1).Draw(rt, "pos")
		switch rapid.IntRange(0, 7).Draw(rt, "mk") {
		case 7:
			// repeat one line many times (e.g. a proof line: pushes counts past any fixed bound)
			start := bytes.LastIndexByte(b[:pos], '\n') + 1
			end := bytes.IndexByte(b[pos:], '\n')
			if end < 0 {
				end = len(b)
			} else {
				end += pos + 1
			}
			line := append([]byte{}, b[start:end]...)
			k := rapid.SampledFrom([]int{1, 2, 62, 63, 64, 65, 100}).Draw(rt, "repeat")
			if len(line) > 0 && len(line)*k < 15000 {
				b = append(b[:end], append(bytes.Repeat(line, k), b[end:]...)...)
			}
		case 0:
			b[pos] ^= 1 << uint(rapid.IntRange(0, 7).Draw(rt, "bit"))
		case 1:
			b = append(b[:pos], b[pos+1:]...)
		case 2:
			b = append(b[:pos], append([]byte{rapid.SampledFrom([]byte{'\n', ' ', 0, 0xff, '=', '-', '0', '9'}).Draw(rt, "ins")}, b[pos:]...)...)
		case 3:
			b = b[:pos]
		case 4:
			end := pos + rapid.IntRange(1, 40).Draw(rt, "dup")
			if end > len(b) {
				end = len(b)
			}
			b = append(b[:end], append(append([]byte{}, b[pos:end]...), b[end:]...)...)
		case 5:
			// replace a decimal run by a hostile number
			num := rapid.SampledFrom([]string{"0", "18446744073709551615", "18446744073709551616", "9223372036854775808", "4611686018427387904", "-1", "1e9", "00"}).Draw(rt, "num")
			j := pos
			for j < len(b) && b[j] >= '0' && b[j] <= '9' {
				j++
			}
			b = append(b[:pos], append([]byte(num), b[j:]...)...)
		default:
			b[pos] = rapid.Byte().Draw(rt, "setb")
		}
	}
	return b
}

func TestC19Endpoint(t *testing.T) {
	st := vlib.StatsFor("C19", "endpoint", ruleC19ep)
	f, err := newFuzzFixture()
	if err != nil {
		t.Fatal(err)
	}
	seeds := seedBodies(f)
	f.closer()
	var names []string
	for n := range seeds {
		names = append(names, n)
	}
	// deterministic order
	for i := range names {
		for j := i + 1; j < len(names); j++ {
			if names[j] < names[i] {
				names[i], names[j] = names[j], names[i]
			}
		}
	}
	// every seed as is
	for _, n := range names {
		c := &FuzzCase{Target: "handler", Data: seeds[n]}
		reached, cls, err := runFuzzCase(c)
		st.Record(caseHash(c), reached, []string{"seed:" + n + ":" + cls}, map[string]any{"seed": n, "status": cls})
		if err != nil {
			vlib.SaveFailure("C19", "endpoint", c, err)
			t.Fatalf("C19 violated by seed %s: %v", n, err)
		}
	}
	rapid.Check(t, func(rt *rapid.T) {
		c := &FuzzCase{}
		switch vlib.Uniform(rt, 10, "target") {
		case 0:
			c.Target = "parsebody"
		case 1:
			c.Target = "proof"
		default:
			c.Target = "handler"
		}
		switch vlib.Uniform(rt, 4, "src") {
		case 0:
			c.Data = rapid.SliceOfN(rapid.Byte(), 0, 600).Draw(rt, "bytes")
		case 1:
			c.Data = []byte(strings.Join(rapid.SliceOfN(rapid.SampledFrom([]string{"old ", "0", "5", "\n", "\n\n", "example.com/log\n", "9\n", "AAAAAAAAAAAAAAAAAAAAAAAAAAAAAAAAAAAAAAAAAAA=\n", "— logkey ", "AAAA", "=", "\x00", "18446744073709551615"}), 0, 16).Draw(rt, "parts"), ""))
		default:
			c.Data = mutateBytes(rt, seeds[rapid.SampledFrom(names).Draw(rt, "seed")])
		}
		if c.Target == "proof" && vlib.Uniform(rt, 2, "proofsrc") == 0 {
			c.Data = mutateBytes(rt, []byte(witness.Proof{bytes.Repeat([]byte{1}, 32), bytes.Repeat([]byte{2}, 32)}.Marshal()))
		}
		reached, cls, err := runFuzzCase(c)
		st.Record(caseHash(c), reached, []string{c.Target + ":" + cls}, vlib.SampleOf(c))
		if err != nil {
			vlib.SaveFailure("C19", "endpoint", c, err)
			rt.Fatalf("C19 violated: %v", err)
		}
	})
}

// Native coverage-guided targets (thorough tier). The semantic oracles run inside.
func fuzzTarget(f *testing.F, target string) {
	fx, err := newFuzzFixture()
	if err != nil {
		f.Fatal(err)
	}
	for _, b := range seedBodies(fx) {
		f.Add(b)
	}
	fx.closer()
	f.Add([]byte(witness.Proof{bytes.Repeat([]byte{1}, 32)}.Marshal()))
	st := vlib.StatsFor("C19", "fuzz-"+target, "native go fuzzing (coverage-guided) of "+target+"; "+ruleC19ep)
	f.Fuzz(func(t *testing.T, data []byte) {
		c := &FuzzCase{Target: target, Data: data}
		reached, cls, err := runFuzzCase(c)
		st.Record(caseHash(c), reached, []string{cls}, nil)
		if err != nil {
			vlib.SaveFailure("C19", "fuzz-"+target, c, err)
			vlib.FlushStats()
			t.Fatalf("C19 violated: %v", err)
		}
	})
}

func FuzzC19Handler(f *testing.F)   { fuzzTarget(f, "handler") }
func FuzzC19ParseBody(f *testing.F) { fuzzTarget(f, "parsebody") }
func FuzzC19Proof(f *testing.F)     { fuzzTarget(f, "proof") }

func init() {
	r := func(raw json.RawMessage) error {
		var c FuzzCase
		if err := json.Unmarshal(raw, &c); err != nil {
			return err
		}
		_, _, err := runFuzzCase(&c)
		return err
	}
	for _, p := range []string{"endpoint", "fuzz-handler", "fuzz-parsebody", "fuzz-proof"} {
		vlib.Replayers["C19/"+p] = r
	}
}
