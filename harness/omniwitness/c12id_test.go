//go:build verif

package omniwitness

import (
	"bytes"
	"context"
	"crypto/ed25519"
	"crypto/sha256"
	"encoding/json"
	"fmt"
	"io"
	"net"
	"net/http"
	"net/http/httptest"
	"net/url"
	"regexp"
	"sort"
	"strconv"
	"strings"
	"sync"
	"testing"
	"time"

	logfmt "github.com/transparency-dev/formats/log"
	"github.com/transparency-dev/witness/internal/config"
	"github.com/transparency-dev/witness/internal/persistence/inmemory"
	"github.com/transparency-dev/witness/internal/verifh/vlib"
	"golang.org/x/mod/sumdb/note"
	"gopkg.in/yaml.v3"
	"pgregory.net/rapid"
)

// ---------------------------------------------------------------------------------
// C12 (identity half) — every component agrees on a log's identity

// IdentCase is a generated configuration.
type IdentCase struct {
	Origins []string `json:"origins"`
	KeyIdx  []int    `json:"keys"` // logs may share a key
	Dup     int      `json:"dup"`  // >=0: entry Dup is duplicated under another key/URL (must be refused at start-up)
	ViaMain bool     `json:"via_main"`
}

var originParts = []string{"example.com", "/log", "/log2", " ", "rekor.sigstore.dev - ", "1193050959916656506", "лог", "/α", "a", "A", "/", ".", "-", "_", "#", "?x=1", "%2F", "sub/", "é"}

func genOrigin(rt *rapid.T, label string) string {
	n := rapid.IntRange(1, 5).Draw(rt, label+"_n")
	var b strings.Builder
	for i := 0; i < n; i++ {
		b.WriteString(rapid.SampledFrom(originParts).Draw(rt, label))
	}
	s := strings.TrimSpace(b.String())
	if s == "" {
		s = "x"
	}
	// origins are not bounded by any buffer size (the add-checkpoint body cap of 16 KiB is
	// the only limit): some of several KiB, sharing a prefix of exactly 4096 bytes with
	// each other
	if vlib.Pct(rt, 6, label+"_long") {
		n := rapid.SampledFrom([]int{4090, 4096, 4097, 5000, 9000}).Draw(rt, label+"_len")
		if n > len(s) {
			s = fmt.Sprintf("%s{%s*%d}", s, rapid.SampledFrom([]string{"a", "b"}).Draw(rt, label+"_fill"), n-len(s))
		}
	}
	// origins are opaque strings: surrounding whitespace is part of the origin on every
	// interface or on none
	switch vlib.Uniform(rt, 8, label+"_pad") {
	case 0:
		s = s + " "
	case 1:
		s = " " + s
	}
	return s
}

type yamlLog struct {
	Origin    string `yaml:"Origin"`
	PublicKey string `yaml:"PublicKey"`
	URL       string `yaml:"URL"`
	Feeder    string `yaml:"Feeder"`
}

// identKey: keys 0-2 have names of their own; keys from 3 on carry the NAME of key 0 with key
// material of their own (a key name is chosen by the log operator and nothing makes it
// unique: what identifies a key is name + key hash).
func identKey(i int) *vlib.Key {
	if i >= 3 {
		return vlib.NewKey("idkey0", fmt.Sprintf("ident%d", i))
	}
	return vlib.NewKey(fmt.Sprintf("idkey%d", i), fmt.Sprintf("ident%d", i))
}

func identYAML(c *IdentCase) []byte {
	var doc struct {
		Logs []yamlLog `yaml:"Logs"`
	}
	for i, o := range c.Origins {
		doc.Logs = append(doc.Logs, yamlLog{Origin: o, PublicKey: identKey(c.KeyIdx[i]).VKey(), URL: "http://unused.example/", Feeder: "none"})
	}
	if c.Dup >= 0 && c.Dup < len(c.Origins) {
		doc.Logs = append(doc.Logs, yamlLog{Origin: c.Origins[c.Dup], PublicKey: identKey(9).VKey(), URL: "http://mirror.example/", Feeder: "none"})
	}
	b, _ := yaml.Marshal(doc)
	return b
}

// identStatic pushes the configuration through the loader functions only.
func identStatic(c *IdentCase) error {
	cfg := LogConfig{}
	if err := yaml.Unmarshal(identYAML(c), &cfg); err != nil {
		return fmt.Errorf("harness: generated YAML does not load: %v", err)
	}
	m, err := cfg.AsLogMap()
	hasEmpty := false
	for _, o := range c.Origins {
		if o == "" {
			hasEmpty = true
		}
	}
	if hasEmpty && err != nil {
		// an entry without an origin: refusing it at load time is as good as filing it - what
		// must not happen is that the loaders accept it and disagree about its ID
		return nil
	}
	if c.Dup >= 0 {
		if err == nil {
			return fmt.Errorf("two configured logs share the origin %q (one ID) and AsLogMap accepted them", c.Origins[c.Dup])
		}
		return nil
	}
	if err != nil {
		return fmt.Errorf("AsLogMap refuses a configuration without duplicates: %v", err)
	}
	if len(m) != len(c.Origins) {
		return fmt.Errorf("witness map has %d entries for %d configured logs", len(m), len(c.Origins))
	}
	for i, l := range cfg.Logs {
		if l.Origin != c.Origins[i] {
			return fmt.Errorf("origin %q read back from YAML as %q", c.Origins[i], l.Origin)
		}
		lc, err := config.NewLog(l.Origin, l.PublicKey, l.URL)
		if err != nil {
			if hasEmpty && c.Origins[i] == "" {
				continue // refused: fine (see above)
			}
			return fmt.Errorf("config.NewLog(%q): %v", l.Origin, err)
		}
		wi, ok := m[lc.ID]
		if !ok {
			return fmt.Errorf("origin %q: feeders/bastion/distributor use ID %s, which is not a key of the witness map", l.Origin, lc.ID)
		}
		if wi.Origin != lc.Origin {
			return fmt.Errorf("ID %s files origin %q in the witness map but %q in the feeder list", lc.ID, wi.Origin, lc.Origin)
		}
		if l.Origin != "" && lc.Origin != l.Origin {
			return fmt.Errorf("configured origin %q became %q in the feeder list", l.Origin, lc.Origin)
		}
		if lc.ID != logfmt.ID(lc.Origin) {
			return fmt.Errorf("feeder list entry with origin %q carries ID %s, the ID of that origin is %s", lc.Origin, lc.ID, logfmt.ID(lc.Origin))
		}
		if l.Origin != "" && lc.ID != logfmt.ID(l.Origin) {
			return fmt.Errorf("origin %q: config ID %s differs from the ID derived from a checkpoint's first line %s", l.Origin, lc.ID, logfmt.ID(l.Origin))
		}
		// the verifier filed under that ID is the one of the key configured for this entry
		// (not that of another entry that happens to share the key's name)
		k := identKey(c.KeyIdx[i])
		text := vlib.CheckpointText(lc.Origin, 1, make([]byte, 32), nil)
		if _, err := note.Open(vlib.Note(text, k.SigLine(text)), note.VerifierList(wi.SigV)); err != nil {
			return fmt.Errorf("origin %q (ID %s): the verifier in the witness map (%s+%08x) does not accept a signature by the key configured for this log (%s): %v", l.Origin, lc.ID, wi.SigV.Name(), wi.SigV.KeyHash(), l.PublicKey, err)
		}
	}
	return nil
}

type distRec struct {
	mu   sync.Mutex
	puts map[string][]byte // escaped path -> last body
}

func (d *distRec) ServeHTTP(w http.ResponseWriter, r *http.Request) {
	b, _ := io.ReadAll(r.Body)
	d.mu.Lock()
	d.puts[r.Method+" "+r.URL.EscapedPath()] = b
	d.mu.Unlock()
	w.WriteHeader(200)
}

var distPathID = regexp.MustCompile(`^PUT /distributor/v0/logs/([^/]+)/byWitness/([^/]+)/checkpoint$`)

// identViaMain starts the assembled service and checks every interface.
func identViaMain(c *IdentCase) error {
	configMu.Lock()
	defer configMu.Unlock()
	saved := ConfigLogs
	ConfigLogs = identYAML(c)
	defer func() { ConfigLogs = saved }()

	stub, err := vlib.NewStubBastion()
	if err != nil {
		return fmt.Errorf("harness: %v", err)
	}
	defer stub.Close()
	dist := &distRec{puts: map[string][]byte{}}
	dsrv := httptest.NewServer(dist)
	defer dsrv.Close()
	wk := vlib.NewKey("witness.example/w", "wit")
	seed := sha256.Sum256([]byte("verif bastion backend key"))
	opCfg := OperatorConfig{
		WitnessKeys:            []note.Signer{wk.Signer(), wk.CosigSigner()},
		WitnessVerifier:        vlib.WitnessKey{K: wk, Kind: vlib.WKCosig}.Verifier(),
		BastionAddr:            stub.Addr,
		BastionKey:             ed25519.NewKeyFromSeed(seed[:]),
		BastionRateLimit:       1000,
		RestDistributorBaseURL: dsrv.URL,
		DistributeInterval:     250 * time.Millisecond,
	}
	ln, err := net.Listen("tcp", "127.0.0.1:0")
	if err != nil {
		return fmt.Errorf("harness: %v", err)
	}
	ctx, cancel := context.WithCancel(context.Background())
	done := make(chan error, 1)
	go func() { done <- Main(ctx, opCfg, inmemory.NewPersistence(), ln, &http.Client{Timeout: 5 * time.Second}) }()
	stopped := false
	stop := func() {
		if stopped {
			return
		}
		stopped = true
		cancel()
		stub.Close() // the bastion goroutine only returns once its reverse connection is gone
		select {
		case <-done:
		case <-time.After(30 * time.Second):
		}
	}
	defer stop()

	if c.Dup >= 0 {
		select {
		case err := <-done:
			stopped = true
			cancel()
			ln.Close()
			if err == nil {
				return fmt.Errorf("Main returned nil for a configuration with two logs sharing origin %q", c.Origins[c.Dup])
			}
			return nil
		case <-time.After(8 * time.Second):
		}
		// Not back after 8 s: "the service started" is decided by the service answering, not by
		// the clock (on an overloaded machine Main may simply not have been scheduled yet)
		for waited := 8; waited < 90; waited += 2 {
			if resp, herr := verifHTTP.Get("http://" + ln.Addr().String() + "/witness/v0/logs"); herr == nil {
				resp.Body.Close()
				if resp.StatusCode == 200 {
					return fmt.Errorf("two configured logs share the origin %q (one ID) but the service started (it answers GET /witness/v0/logs) instead of refusing the configuration", c.Origins[c.Dup])
				}
			}
			select {
			case err := <-done:
				stopped = true
				cancel()
				ln.Close()
				if err == nil {
					return fmt.Errorf("Main returned nil for a configuration with two logs sharing origin %q", c.Origins[c.Dup])
				}
				return nil
			case <-time.After(2 * time.Second):
			}
		}
		return fmt.Errorf("%s Main neither returned nor served within 90 s for a configuration with a duplicated origin", vlib.InfraMarker)
	}
	if err := stub.WaitConnected(120 * time.Second); err != nil {
		select {
		case merr := <-done:
			stopped = true
			return fmt.Errorf("Main stopped at start-up with a configuration without duplicates: %v", merr)
		default:
		}
		return fmt.Errorf("harness: %v", err)
	}
	main := vlib.RootBranch("ID", 0)
	addr := "http://" + ln.Addr().String()
	texts := map[string]string{}
	for i, o := range c.Origins {
		size := uint64(i + 3)
		root := main.Root(size)
		text := vlib.CheckpointText(o, size, root[:], nil)
		cp := vlib.Note(text, identKey(c.KeyIdx[i]).SigLine(text))
		body := append([]byte("old 0\n\n"), cp...)
		code, _, rb, err := stub.Post(body)
		if err != nil {
			return fmt.Errorf("harness: post: %v", err)
		}
		if code != 200 {
			return fmt.Errorf("origin %q: the bastion endpoint answered %d (%q) for the log's first checkpoint: it does not file the origin under the ID the witness knows", o, code, rb)
		}
		texts[o] = text
	}
	wantIDs := []string{}
	for _, o := range c.Origins {
		id := logfmt.ID(o)
		wantIDs = append(wantIDs, id)
		resp, err := verifHTTP.Get(addr + "/witness/v0/logs/" + id + "/checkpoint")
		if err != nil {
			return fmt.Errorf("harness: GET: %v", err)
		}
		b, _ := io.ReadAll(resp.Body)
		resp.Body.Close()
		if resp.StatusCode != 200 {
			return fmt.Errorf("origin %q was accepted through the bastion but the HTTP API has nothing under its ID %s (status %d)", o, id, resp.StatusCode)
		}
		text, _, ok := vlib.SplitNote(b)
		if !ok || text != texts[o] {
			return fmt.Errorf("HTTP API serves %q under the ID of origin %q", text, o)
		}
	}
	sort.Strings(wantIDs)
	resp, err := verifHTTP.Get(addr + "/witness/v0/logs")
	if err != nil {
		return fmt.Errorf("harness: GET logs: %v", err)
	}
	lb, _ := io.ReadAll(resp.Body)
	resp.Body.Close()
	var list []string
	_ = json.Unmarshal(lb, &list)
	sort.Strings(list)
	if strings.Join(list, ",") != strings.Join(wantIDs, ",") {
		return fmt.Errorf("log list %v differs from the IDs of the configured origins %v", list, wantIDs)
	}
	// the distributor gets every log under the same ID
	deadline := time.Now().Add(30 * time.Second)
	for {
		dist.mu.Lock()
		got := map[string][]byte{}
		for p, b := range dist.puts {
			m := distPathID.FindStringSubmatch(p)
			if m == nil {
				dist.mu.Unlock()
				return fmt.Errorf("distributor received %q", p)
			}
			name, _ := url.PathUnescape(m[2])
			if name != wk.Name {
				dist.mu.Unlock()
				return fmt.Errorf("distributor path names witness %q, want %q", name, wk.Name)
			}
			got[m[1]] = b
		}
		dist.mu.Unlock()
		missing := ""
		for _, o := range c.Origins {
			b, ok := got[logfmt.ID(o)]
			if !ok {
				missing = o
				continue
			}
			text, _, ok := vlib.SplitNote(b)
			if !ok || text != texts[o] {
				return fmt.Errorf("distributor received %q under the ID of origin %q", text, o)
			}
		}
		for id := range got {
			found := false
			for _, w := range wantIDs {
				if w == id {
					found = true
				}
			}
			if !found {
				return fmt.Errorf("distributor received a checkpoint under ID %s, which is not the ID of any configured origin", id)
			}
		}
		if missing == "" {
			break
		}
		if time.Now().After(deadline) {
			return fmt.Errorf("30s (120 distribution intervals) after acceptance the distributor has received nothing under the ID of origin %q", missing)
		}
		time.Sleep(50 * time.Millisecond)
	}
	return nil
}

var repeatRE = regexp.MustCompile(`\{(.)\*(\d+)\}`)

// expanded replaces the compact spelling {c*N} (N times the character c) in origins, so
// that origins of several KiB do not bloat cases and evidence.
func (c *IdentCase) expanded() *IdentCase {
	d := *c
	d.Origins = nil
	for _, o := range c.Origins {
		d.Origins = append(d.Origins, repeatRE.ReplaceAllStringFunc(o, func(m string) string {
			sm := repeatRE.FindStringSubmatch(m)
			n, _ := strconv.Atoi(sm[2])
			return strings.Repeat(sm[1], n)
		}))
	}
	return &d
}

func runIdent(c *IdentCase) (bool, []string, error) {
	c = c.expanded()
	cls := "static"
	if c.ViaMain {
		cls = "via-main"
	}
	if c.Dup >= 0 {
		cls += "-duplicate"
	}
	for _, o := range c.Origins {
		if len(o) > 4096 {
			cls += "-long-origin"
			break
		}
	}
	if err := identStatic(c); err != nil {
		return true, []string{cls}, err
	}
	if c.ViaMain {
		if err := identViaMain(c); err != nil {
			return true, []string{cls}, err
		}
	}
	return true, []string{cls}, nil
}

func genIdent(rt *rapid.T, viaMain bool) *IdentCase {
	c := &IdentCase{Dup: -1, ViaMain: viaMain}
	n := rapid.IntRange(1, 5).Draw(rt, "nlogs")
	seen := map[string]bool{}
	for i := 0; i < n; i++ {
		o := genOrigin(rt, "origin")
		full := func(o string) string { return (&IdentCase{Origins: []string{o}}).expanded().Origins[0] }
		for n := 0; seen[full(o)]; n++ {
			// construct a fresh origin rather than rejecting; make sure the constructed one is new too
			o = o + "~" + strconv.Itoa(i+n)
		}
		seen[full(o)] = true
		if !viaMain && i == 0 && vlib.Pct(rt, 5, "emptyorigin") {
			// an entry whose Origin was left out (loaders only: either refused, or filed under
			// one ID by all of them)
			o = ""
		}
		c.Origins = append(c.Origins, o)
		c.KeyIdx = append(c.KeyIdx, rapid.IntRange(0, 4).Draw(rt, "key"))
	}
	if vlib.Pct(rt, 30, "dup") {
		c.Dup = rapid.IntRange(0, n-1).Draw(rt, "dupidx")
	}
	return c
}

func identHash(c *IdentCase) string {
	b, _ := json.Marshal(c)
	return fmt.Sprintf("%x", vlib.LeafHash(b))[:16]
}

const ruleC12id = "generated configurations of 1-5 logs (origins assembled from parts with spaces, slashes, non-ASCII, URL metacharacters, shared prefixes, 6% several KiB long, 5% of the loader-only cases with an entry whose Origin is left out; shared keys, and distinct keys that share a key NAME; 30% with a duplicated origin) pushed through the real YAML schema, AsLogMap and config.NewLog (static part) and through the assembled service started by Main with a stub bastion (TLS/h2 reverse connection), a stub distributor and the HTTP API (via-main part): the ID accepted/used on every interface must be one string per origin and duplicates must be refused at start-up; non-trivial = any; distinct by case hash"

func TestC12Static(t *testing.T) {
	st := vlib.StatsFor("C12", "id-static", ruleC12id)
	rapid.Check(t, func(rt *rapid.T) {
		c := genIdent(rt, false)
		nt, cl, err := runIdent(c)
		st.Record(identHash(c), nt, cl, vlib.SampleOf(c))
		if err != nil {
			vlib.SaveFailure("C12", "id-static", c, err)
			rt.Fatalf("C12 violated: %v", err)
		}
	})
}

func TestC12ViaMain(t *testing.T) {
	st := vlib.StatsFor("C12", "id-main", ruleC12id)
	rapid.Check(t, func(rt *rapid.T) {
		c := genIdent(rt, true)
		nt, cl, err := runIdent(c)
		st.Record(identHash(c), nt, cl, vlib.SampleOf(c))
		if err != nil {
			vlib.SaveFailure("C12", "id-main", c, err)
			rt.Fatalf("C12 violated: %v", err)
		}
	})
}

// TestC12DupMain: fixed configurations with a duplicated origin must make Main itself
// refuse to start (cheap when it does: Main returns at once).
func TestC12DupMain(t *testing.T) {
	st := vlib.StatsFor("C12", "id-dup-main", "fixed configurations started through Main: two entries sharing an origin (same key / other key, first / last entry) must make it return an error instead of serving; one configuration without duplicates whose origins are 4096 and 5012 bytes long (one a prefix of the other) must be served under the right IDs on every interface; non-trivial = any")
	for _, c := range []*IdentCase{
		{Origins: []string{"example.com/log"}, KeyIdx: []int{0}, Dup: 0, ViaMain: true},
		{Origins: []string{"example.com/log", "example.com/log2", "rekor.sigstore.dev - 1193050959916656506"}, KeyIdx: []int{0, 1, 1}, Dup: 2, ViaMain: true},
		{Origins: []string{"a", "A", "лог/α"}, KeyIdx: []int{0, 0, 2}, Dup: 0, ViaMain: true},
		// no duplicate: origins longer than any line buffer, one exactly the 4096-byte prefix of another
		{Origins: []string{"example.com/{a*5000}", "example.com/{a*4084}", "example.com/log"}, KeyIdx: []int{0, 0, 1}, Dup: -1, ViaMain: true},
	} {
		nt, cl, err := runIdent(c)
		st.Record(identHash(c), nt, cl, vlib.SampleOf(c))
		if err != nil {
			vlib.SaveFailure("C12", "id-dup-main", c, err)
			t.Fatalf("C12 violated: %v", err)
		}
	}
}

var _ = bytes.Equal

func init() {
	r := func(raw json.RawMessage) error {
		var c IdentCase
		if err := json.Unmarshal(raw, &c); err != nil {
			return err
		}
		_, _, err := runIdent(&c)
		return err
	}
	vlib.Replayers["C12/id-static"] = r
	vlib.Replayers["C12/id-main"] = r
	vlib.Replayers["C12/id-dup-main"] = r
}
