//go:build verif

package omniwitness

import (
	"crypto/sha256"
	"google.golang.org/grpc/codes"
	"google.golang.org/grpc/status"
	"bytes"
	"context"
	"encoding/json"
	"errors"
	"fmt"
	"net/http"
	"os"
	"strings"
	"sync"
	"testing"
	"time"

	"github.com/transparency-dev/formats/log"
	"github.com/transparency-dev/witness/internal/feeder"
	"github.com/transparency-dev/witness/internal/verifh/vlib"
	"pgregory.net/rapid"
)

func TestMain(m *testing.M) {
	vlib.InstallMetrics()
	vlib.QuietKlog()
	if err := vlib.InstallTestCA(); err != nil { // before any TLS use (stub bastion certificate must be a system root)
		panic(err)
	}
	if os.Getenv("VERIF_CHILD") != "" {
		os.Exit(omniChildMain())
	}
	code := m.Run()
	vlib.FlushStats()
	os.Exit(code)
}

func TestReplay(t *testing.T) {
	what, ran, err := vlib.RunReplay()
	if err != nil {
		t.Fatalf("replay of %s fails: %v", what, err)
	}
	if !ran {
		t.Skipf("nothing to replay in this binary (%s)", what)
	}
}

// verifHTTP is the client the harness uses against the running service: a wedged service
// must show up as a failed request, not as a hung check.
var verifHTTP = &http.Client{Timeout: 5 * time.Second}

// omniChildMains are entry points of re-executed children of this binary.
var omniChildMains = map[string]func() int{}

func omniChildMain() int {
	if f, ok := omniChildMains[os.Getenv("VERIF_CHILD")]; ok {
		return f()
	}
	return 3
}

// ---------------------------------------------------------------------------------
// C13 — the feeder only asks for a justified step

// FeedCase is one feed cycle.
type FeedCase struct {
	Real    bool   `json:"real"`     // real witness (through witnessAdapter) instead of the recording stub
	W       []int  `json:"w"`        // size the witness reports in attempt k (-1: nothing yet; -2: one byte of junk; -3: a checkpoint signed by another key); last value repeats
	N       int    `json:"n"`        // size the log publishes
	Fork    bool   `json:"fork"`     // the log publishes a forked branch
	ForkAt  int    `json:"fork_at"`  // fork point
	Word    string `json:"word"`     // transient failures, one letter per attempt: G get-latest, P fetch-proof, U update
	Never   string `json:"never"`    // "" or G/P/U: that call never succeeds
	DeadMs  int    `json:"dead_ms"`  // context deadline for Never cases
	BadCp   string `json:"bad_cp"`   // "" | wrongkey | wrongorigin | garbage | trailing-newline | trailing-space | trailing-crlf | leading-newline
	// ErrKind: what the transient failures look like: "" plain error | timeout (an error
	// matching context.DeadlineExceeded, as an http.Client with its own timeout reports,
	// while the feeder's context is alive) | canceled (wraps context.Canceled) | unavailable (gRPC status)
	ErrKind string `json:"err_kind,omitempty"`
	// WBig / NBig > 0 (stub only) override W[0] / N with sizes beyond any real tree (2^62,
	// 2^63 +- 1, 2^64-1): the roots are then made up, which the recording stub does not mind
	WBig uint64 `json:"w_big,omitempty"`
	NBig uint64 `json:"n_big,omitempty"`
	Storage string `json:"storage"`  // real witness storage
	WStale  bool   `json:"w_stale"`  // (stub) witness's reported checkpoint is on the other branch than the log's
	Shape   string `json:"shape,omitempty"` // published checkpoint: "" plain | ext (extension lines) | lz (leading zeros in the size) | extrasig (an unknown extra signature line)
}

const feedOrigin = "example.com/log"

type call struct {
	Kind    string
	Attempt int
	Old     uint64
	Cp      []byte
	Proof   [][]byte
	From    log.Checkpoint
	To      log.Checkpoint
	Ret     []byte
	RetProof [][]byte
	Failed  bool
}

type stubWitness struct {
	mu       sync.Mutex
	c        *FeedCase
	key      *vlib.Key
	main     *vlib.Branch
	attempt  int // index of the current attempt (incremented by GetLatest)
	consumed int
	calls    []call
}

type stubTimeoutErr struct{ what string }

func (e stubTimeoutErr) Error() string   { return "stub: " + e.what + ": request timed out" }
func (e stubTimeoutErr) Timeout() bool   { return true }
func (e stubTimeoutErr) Is(t error) bool { return t == context.DeadlineExceeded }

// transient builds the error of a transient failure in the case's style.
func (s *stubWitness) transient(what string) error {
	switch s.c.ErrKind {
	case "timeout":
		return stubTimeoutErr{what}
	case "canceled":
		return fmt.Errorf("stub: %s: per-request context: %w", what, context.Canceled)
	case "unavailable":
		return status.Error(codes.Unavailable, "stub: "+what+" unavailable")
	}
	return errors.New("stub: transient " + what + " failure")
}

func (s *stubWitness) letter() byte {
	if s.consumed < len(s.c.Word) {
		return s.c.Word[s.consumed]
	}
	return 0
}

func cpBytes(key *vlib.Key, br *vlib.Branch, size int) []byte {
	root := br.Root(uint64(size))
	text := vlib.CheckpointText(feedOrigin, uint64(size), root[:], nil)
	return vlib.Note(text, key.SigLine(text))
}

// rootOf is the branch's root, or a made-up one for sizes no real tree reaches.
func rootOf(br *vlib.Branch, size uint64) [32]byte {
	if size <= 1<<16 {
		return br.Root(size)
	}
	return sha256.Sum256([]byte(fmt.Sprintf("made-up root of size %d", size)))
}

// wAt is the W entry that governs attempt a.
func (c *FeedCase) wAt(a int) int {
	if a < len(c.W) {
		return c.W[a]
	}
	return c.W[len(c.W)-1]
}

func trunc40(b []byte) string {
	if len(b) > 40 {
		return string(b[:40]) + "..."
	}
	return string(b)
}

func (c *FeedCase) nsize() uint64 {
	if c.NBig > 0 {
		return c.NBig
	}
	return uint64(c.N)
}

// shapedCp is a valid log-signed checkpoint in one of the shapes a log may legally publish.
func shapedCp(key *vlib.Key, br *vlib.Branch, size int, shape string) []byte {
	return shapedCpU(key, br, uint64(size), shape)
}

func shapedCpU(key *vlib.Key, br *vlib.Branch, size uint64, shape string) []byte {
	root := rootOf(br, size)
	var ext []string
	if shape == "ext" {
		ext = []string{"Timestamp: 1700000000", "another extension line"}
	}
	text := vlib.CheckpointText(feedOrigin, size, root[:], ext)
	if shape == "lz" {
		text = strings.Replace(text, "\n", "\n0", 1) // "<origin>\n0<size>\n..."
	}
	lines := []string{key.SigLine(text)}
	if shape == "extrasig" {
		lines = append(lines, vlib.NewKey("someone-else", "someone-else").SigLine(text))
	}
	return vlib.Note(text, lines...)
}

func (s *stubWitness) latestFor(attempt int) []byte {
	w := s.c.W[len(s.c.W)-1]
	if attempt < len(s.c.W) {
		w = s.c.W[attempt]
	}
	switch w {
	case -2: // an answer that is no checkpoint at all
		return []byte("x")
	case -3: // a checkpoint of this origin signed by somebody else
		return cpBytes(vlib.NewKey("logkey", "stranger"), s.main, 3)
	}
	if w < 0 {
		return nil
	}
	br := s.main
	if s.c.WStale {
		br = s.main.ForkAt(uint64(s.c.ForkAt), 7)
	}
	// the witness returns a cosigned checkpoint: log line + a witness line
	wsz := uint64(w)
	if s.c.WBig > 0 {
		wsz = s.c.WBig
	}
	root := rootOf(br, wsz)
	text := vlib.CheckpointText(feedOrigin, wsz, root[:], nil)
	wk := vlib.NewKey("witness.example/w", "wit")
	return vlib.Note(text, s.key.SigLine(text), wk.CosigLine(text, 1700000000))
}

func (s *stubWitness) GetLatestCheckpoint(ctx context.Context, logID string) ([]byte, error) {
	s.mu.Lock()
	defer s.mu.Unlock()
	s.attempt = len(s.attempts())
	c := call{Kind: "G", Attempt: s.attempt}
	if s.c.Never == "G" || s.letter() == 'G' {
		if s.c.Never != "G" {
			s.consumed++
		}
		c.Failed = true
		s.calls = append(s.calls, c)
		return nil, s.transient("get-latest")
	}
	b := s.latestFor(s.attempt)
	c.Ret = b
	s.calls = append(s.calls, c)
	if b == nil {
		return nil, os.ErrNotExist
	}
	return b, nil
}

func (s *stubWitness) attempts() []call {
	var a []call
	for _, c := range s.calls {
		if c.Kind == "G" {
			a = append(a, c)
		}
	}
	return a
}

func (s *stubWitness) fetchProof(ctx context.Context, from, to log.Checkpoint) ([][]byte, error) {
	s.mu.Lock()
	defer s.mu.Unlock()
	c := call{Kind: "P", Attempt: s.attempt, From: from, To: to}
	if s.c.Never == "P" || s.letter() == 'P' {
		if s.c.Never != "P" {
			s.consumed++
		}
		c.Failed = true
		s.calls = append(s.calls, c)
		return nil, s.transient("fetch-proof")
	}
	// a recognisable proof: derived from the sizes asked for
	p := [][]byte{[]byte(fmt.Sprintf("proof %d->%d attempt %d", from.Size, to.Size, s.attempt))}
	if from.Size == 0 {
		p = [][]byte{}
	}
	c.RetProof = p
	s.calls = append(s.calls, c)
	return p, nil
}

func (s *stubWitness) Update(ctx context.Context, logID string, oldSize uint64, newCP []byte, proof [][]byte) ([]byte, error) {
	s.mu.Lock()
	defer s.mu.Unlock()
	c := call{Kind: "U", Attempt: s.attempt, Old: oldSize, Cp: append([]byte{}, newCP...), Proof: proof}
	if s.c.Never == "U" || s.letter() == 'U' {
		if s.c.Never != "U" {
			s.consumed++
		}
		c.Failed = true
		s.calls = append(s.calls, c)
		return nil, s.transient("update")
	}
	c.Ret = []byte(fmt.Sprintf("cosigned by stub in attempt %d\n", s.attempt))
	s.calls = append(s.calls, c)
	return c.Ret, nil
}

func runFeedStub(c *FeedCase) (bool, []string, error) {
	key := vlib.NewKey("logkey", "log0")
	main := vlib.RootBranch("A", 0)
	logBr := main
	if c.Fork {
		logBr = main.ForkAt(uint64(c.ForkAt), 0)
	}
	var published []byte
	switch c.BadCp {
	case "":
		published = shapedCpU(key, logBr, c.nsize(), c.Shape)
	case "wrongkey":
		published = cpBytes(vlib.NewKey("logkey", "stranger"), logBr, c.N)
	case "wrongorigin":
		root := logBr.Root(uint64(c.N))
		text := vlib.CheckpointText("other.example/log", uint64(c.N), root[:], nil)
		published = vlib.Note(text, key.SigLine(text))
	case "trailing-newline":
		published = append(cpBytes(key, logBr, c.N), '\n')
	case "trailing-space":
		published = append(cpBytes(key, logBr, c.N), ' ')
	case "trailing-crlf":
		published = append(cpBytes(key, logBr, c.N), '\r', '\n')
	case "leading-newline":
		published = append([]byte{'\n'}, cpBytes(key, logBr, c.N)...)
	default:
		published = []byte("garbage\n")
	}
	sw := &stubWitness{c: c, key: key, main: main}
	opts := feeder.FeedOpts{
		LogID: log.ID(feedOrigin), LogOrigin: feedOrigin, LogSigVerifier: key.Verifier(), Witness: sw,
		FetchCheckpoint: func(ctx context.Context) ([]byte, error) { return published, nil },
		FetchProof:      sw.fetchProof,
	}
	ctx := context.Background()
	dead := time.Duration(c.DeadMs) * time.Millisecond
	if c.Never != "" {
		var cancel context.CancelFunc
		ctx, cancel = context.WithTimeout(ctx, dead)
		defer cancel()
	}
	start := time.Now()
	type res struct {
		b   []byte
		err error
	}
	done := make(chan res, 1)
	go func() {
		b, err := feeder.FeedOnce(ctx, opts)
		done <- res{b, err}
	}()
	var out res
	limit := 60 * time.Second
	if c.Never != "" {
		limit = dead + 20*time.Second
	}
	select {
	case out = <-done:
	case <-time.After(limit):
		return true, nil, fmt.Errorf("FeedOnce did not return within %v (context deadline %v): it does not stop when its context ends", limit, dead)
	}
	_ = start
	sw.mu.Lock()
	defer sw.mu.Unlock()
	calls := sw.calls
	classes := []string{fmt.Sprintf("stub:word=%d,never=%q,bad=%q", len(c.Word), c.Never, c.BadCp)}
	nontrivial := sw.consumed > 0

	if c.BadCp != "" {
		if out.err == nil || len(calls) != 0 {
			return true, classes, fmt.Errorf("log published a checkpoint that does not verify (%s): FeedOnce err=%v and made %d witness/proof calls; want an error and no calls", c.BadCp, out.err, len(calls))
		}
		return true, classes, nil
	}

	// per attempt contract
	byAttempt := map[int][]call{}
	maxAttempt := -1
	for _, cl := range calls {
		byAttempt[cl.Attempt] = append(byAttempt[cl.Attempt], cl)
		if cl.Attempt > maxAttempt {
			maxAttempt = cl.Attempt
		}
	}
	subSize := c.nsize()
	subRoot := rootOf(logBr, subSize)
	var okUpdate *call
	sawUnverifiable := false
	for a := 0; a <= maxAttempt; a++ {
		cs := byAttempt[a]
		if len(cs) == 0 || cs[0].Kind != "G" {
			return nontrivial, classes, fmt.Errorf("attempt %d does not start by asking the witness for its latest checkpoint: %s", a, callStr(cs))
		}
		g := cs[0]
		if g.Failed {
			if len(cs) != 1 {
				return nontrivial, classes, fmt.Errorf("attempt %d: get-latest failed but the feeder went on: %s", a, callStr(cs))
			}
			continue
		}
		if wv := c.wAt(a); wv == -2 || wv == -3 {
			// what the witness answered is not a checkpoint of this log under this key: there
			// is nothing to anchor an old size or a proof to, so nothing may be asked or sent
			// in this attempt (whether the cycle then retries or gives up is the feeder's choice)
			sawUnverifiable = true
			if len(cs) != 1 {
				return true, classes, fmt.Errorf("attempt %d: the witness's answer (%q) does not verify as a checkpoint of this log, but the feeder went on: %s", a, trunc40(g.Ret), callStr(cs[1:]))
			}
			continue
		}
		var latest log.Checkpoint
		have := g.Ret != nil
		if have {
			h := (*vlib.Env)(nil).ScanCheckpoint(g.Ret)
			latest = log.Checkpoint{Origin: h.Origin, Size: h.Size, Hash: h.Root}
			if h.Size > subSize {
				nontrivial = true
			}
		}
		rest := cs[1:]
		if have && latest.Size > subSize {
			if len(rest) != 0 {
				return true, classes, fmt.Errorf("attempt %d: witness is ahead (%d > %d) but the feeder still called %s", a, latest.Size, subSize, callStr(rest))
			}
			continue
		}
		if have && latest.Size > 0 && latest.Size < subSize {
			nontrivial = true
		}
		equal := have && latest.Size == subSize && bytes.Equal(latest.Hash, subRoot[:])
		var proofRet [][]byte
		if !equal {
			if len(rest) == 0 || rest[0].Kind != "P" {
				return nontrivial, classes, fmt.Errorf("attempt %d: expected a proof request from the witness's latest (%d) to the submitted checkpoint (%d), got %s", a, latest.Size, subSize, callStr(rest))
			}
			p := rest[0]
			if p.From.Size != latest.Size || !bytes.Equal(p.From.Hash, latest.Hash) {
				return nontrivial, classes, fmt.Errorf("attempt %d: proof requested from size %d hash %x, but the witness reported size %d hash %x in this attempt", a, p.From.Size, p.From.Hash, latest.Size, latest.Hash)
			}
			if p.To.Size != subSize || !bytes.Equal(p.To.Hash, subRoot[:]) {
				return nontrivial, classes, fmt.Errorf("attempt %d: proof requested to size %d, submitted checkpoint has size %d", a, p.To.Size, subSize)
			}
			if p.Failed {
				if len(rest) != 1 {
					return nontrivial, classes, fmt.Errorf("attempt %d: proof fetch failed but the feeder went on: %s", a, callStr(rest))
				}
				continue
			}
			proofRet = p.RetProof
			rest = rest[1:]
		} else {
			proofRet = [][]byte{}
		}
		if len(rest) != 1 || rest[0].Kind != "U" {
			return nontrivial, classes, fmt.Errorf("attempt %d: expected exactly one update, got %s", a, callStr(rest))
		}
		u := rest[0]
		if u.Old != latest.Size {
			return nontrivial, classes, fmt.Errorf("attempt %d: update sent old size %d, but the witness reported size %d in this attempt", a, u.Old, latest.Size)
		}
		if !bytes.Equal(u.Cp, published) {
			return nontrivial, classes, fmt.Errorf("attempt %d: update carries bytes other than the checkpoint the log published", a)
		}
		if len(u.Proof) != len(proofRet) {
			return nontrivial, classes, fmt.Errorf("attempt %d: update carries %d proof hashes, the proof fetched in this attempt has %d", a, len(u.Proof), len(proofRet))
		}
		for i := range proofRet {
			if !bytes.Equal(u.Proof[i], proofRet[i]) {
				return nontrivial, classes, fmt.Errorf("attempt %d: update carries a different proof (%q) than fetched in this attempt (%q)", a, u.Proof[i], proofRet[i])
			}
		}
		if !u.Failed {
			cc := u
			okUpdate = &cc
			if a != maxAttempt {
				return nontrivial, classes, fmt.Errorf("feeder continued after a successful update in attempt %d", a)
			}
		}
	}

	if sawUnverifiable {
		return true, append(classes, "witness-answer-unverifiable"), nil
	}
	ahead := false
	if g := byAttempt[maxAttempt]; len(g) > 0 && g[0].Ret != nil {
		h := (*vlib.Env)(nil).ScanCheckpoint(g[0].Ret)
		ahead = h.Size > subSize
	}
	switch {
	case c.Never != "":
		if out.err == nil {
			return true, classes, fmt.Errorf("call %q never succeeds but FeedOnce returned success", c.Never)
		}
		return true, classes, nil
	case ahead:
		if out.err == nil {
			return true, classes, fmt.Errorf("witness ahead of the log but FeedOnce reported success")
		}
		if maxAttempt+1 != sw.consumed+1 {
			return true, classes, fmt.Errorf("witness ahead of the log: %d attempts after %d transient failures, want no retry", maxAttempt+1, sw.consumed)
		}
		return true, classes, nil
	default:
		if out.err != nil {
			return nontrivial, classes, fmt.Errorf("all faults transient (%q) but FeedOnce failed: %v (calls: %s)", c.Word, out.err, callStr(calls))
		}
		if okUpdate == nil {
			return nontrivial, classes, fmt.Errorf("FeedOnce reported success without a successful update")
		}
		if !bytes.Equal(out.b, okUpdate.Ret) {
			return nontrivial, classes, fmt.Errorf("FeedOnce returned %q, the witness returned %q", out.b, okUpdate.Ret)
		}
		if maxAttempt+1 != sw.consumed+1 {
			return nontrivial, classes, fmt.Errorf("%d attempts after %d transient failures, want %d", maxAttempt+1, sw.consumed, sw.consumed+1)
		}
		return nontrivial, classes, nil
	}
}

func callStr(cs []call) string {
	var s []string
	for _, c := range cs {
		f := ""
		if c.Failed {
			f = "!"
		}
		s = append(s, fmt.Sprintf("%s%s@%d", c.Kind, f, c.Attempt))
	}
	return "[" + strings.Join(s, " ") + "]"
}

// runFeedReal drives the real witness through witnessAdapter.
func runFeedReal(c *FeedCase) (bool, []string, error) {
	hc := &vlib.HistCase{Prop: "C13", Storage: c.Storage, Seed: "A", Forks: []vlib.ForkSpec{{Parent: 0, At: uint64(c.ForkAt)}},
		Logs: []vlib.LogSpec{{Origin: feedOrigin, KeyLabel: "log0", KeyName: "logkey"}}, WKeys: vlib.ProdWKeys}
	e := vlib.NewEnv(hc)
	w, _, closer, err := e.NewWitness()
	if err != nil {
		return false, nil, fmt.Errorf("harness: %v", err)
	}
	defer closer()
	key := e.LogKeys[0]
	id := e.LogIDs[0]
	main, forked := e.Branches[0], e.Branches[1]
	w0 := c.W[0]
	if w0 >= 0 {
		if _, err := w.Update(context.Background(), id, 0, cpBytes(key, main, w0), nil); err != nil {
			return false, nil, fmt.Errorf("harness: planting size %d failed: %v", w0, err)
		}
	}
	before, _ := w.GetCheckpoint(id)
	logBr := main
	if c.Fork {
		logBr = forked
	}
	published := shapedCp(key, logBr, c.N, c.Shape)
	opts := feeder.FeedOpts{
		LogID: id, LogOrigin: feedOrigin, LogSigVerifier: key.Verifier(), Witness: &witnessAdapter{w: w},
		FetchCheckpoint: func(ctx context.Context) ([]byte, error) { return published, nil },
		FetchProof: func(ctx context.Context, from, to log.Checkpoint) ([][]byte, error) {
			if from.Size == 0 {
				return [][]byte{}, nil
			}
			return logBr.Consistency(from.Size, to.Size), nil
		},
	}
	ctx, cancel := context.WithTimeout(context.Background(), 1200*time.Millisecond)
	defer cancel()
	done := make(chan struct{})
	var out []byte
	var ferr error
	go func() { out, ferr = feeder.FeedOnce(ctx, opts); close(done) }()
	select {
	case <-done:
	case <-time.After(25 * time.Second):
		return true, nil, fmt.Errorf("FeedOnce against the real witness did not return 25s after a 1.2s deadline")
	}
	after, _ := w.GetCheckpoint(id)
	consistent := !c.Fork || c.ForkAt >= c.N || (w0 >= 0 && c.N <= w0 && vlib.IsPrefix(logBr, uint64(c.N), main, uint64(w0)) && c.N == w0) || w0 < 0
	// the log's tree extends the witnessed tree?
	extends := w0 < 0 || (w0 <= c.N && vlib.IsPrefix(main, uint64(w0), logBr, uint64(c.N)))
	_ = consistent
	cls := fmt.Sprintf("real:w=%s,extends=%v", map[bool]string{true: "none", false: "held"}[w0 < 0], extends)
	nontrivial := w0 > 0 && c.N > w0
	if w0 >= 0 && w0 > c.N {
		if ferr == nil || !bytes.Equal(before, after) {
			return true, []string{cls}, fmt.Errorf("witness ahead (%d > %d): FeedOnce err=%v, state changed=%v", w0, c.N, ferr, !bytes.Equal(before, after))
		}
		return true, []string{cls}, nil
	}
	if extends {
		if w0 == 0 && c.N > 0 && vlib.IsKnown("F2") {
			return false, []string{"real:excluded-F2"}, nil
		}
		if ferr != nil {
			return nontrivial, []string{cls}, fmt.Errorf("honest log (witness %d -> log %d): FeedOnce failed: %v", w0, c.N, ferr)
		}
		h := e.ScanCheckpoint(after)
		pub := e.ScanCheckpoint(published)
		if h.Text != pub.Text {
			return nontrivial, []string{cls}, fmt.Errorf("honest log: after feeding, the witness holds %q, the log published %q", h.Text, pub.Text)
		}
		if !bytes.Equal(out, after) {
			return nontrivial, []string{cls}, fmt.Errorf("FeedOnce returned bytes other than the witness's cosigned checkpoint")
		}
		return nontrivial, []string{cls}, nil
	}
	// forked: the witness must still hold its previous checkpoint
	if ferr == nil {
		return true, []string{cls}, fmt.Errorf("forked log (witness %d on main, log %d forked at %d): FeedOnce reported success", w0, c.N, c.ForkAt)
	}
	if !bytes.Equal(before, after) {
		return true, []string{cls}, fmt.Errorf("forked log: witness state changed")
	}
	return true, []string{cls}, nil
}

func runFeedCase(c *FeedCase) (bool, []string, error) {
	if c.Real {
		return runFeedReal(c)
	}
	return runFeedStub(c)
}

const ruleC13 = "feed cycles against a recording stub witness (per-attempt scripted latest checkpoint, transient failures of get-latest/fetch-proof/update, never-clearing faults with a context deadline, unverifiable published checkpoints) and against the real witness through witnessAdapter (honest and forked logs); non-trivial = >=1 transient failure before success, or witness size > 0 and log size > witness size, or witness ahead; distinct by case hash"

func feedHash(c *FeedCase) string {
	b, _ := json.Marshal(c)
	return fmt.Sprintf("%x", vlib.LeafHash(b))[:16]
}

// allWords enumerates every word over {G,P,U} of length 0..max.
func allWords(max int) []string {
	out := []string{""}
	prev := []string{""}
	for l := 1; l <= max; l++ {
		var next []string
		for _, p := range prev {
			for _, ch := range "GPU" {
				next = append(next, p+string(ch))
			}
		}
		out = append(out, next...)
		prev = next
	}
	return out
}

// TestC13Words: all 121 failure words of length <= 4, for several size scenarios, run
// as concurrent batches (the exponential back-off uses the real clock).
func TestC13Words(t *testing.T) {
	st := vlib.StatsFor("C13", "words", "exhaustive: all 121 words over {get-latest, fetch-proof, update} failures of length 0..4 followed by success (each word once with plain errors and once with errors that look like a per-request timeout / a cancelled per-request context / gRPC Unavailable), x size scenarios (first use, growth with advancing witness, a witness that loses its state between attempts, equality); "+ruleC13)
	type scen struct {
		w []int
		n int
	}
	// the third scenario is a witness that loses its state between attempts (restarted over
	// an emptied or in-memory store) and is then fed again by someone else: an attempt that is
	// told "nothing yet" owes old size 0 and an empty proof whatever earlier attempts saw
	scens := []scen{{[]int{-1}, 7}, {[]int{3, 3, 5, 5, 6}, 9}, {[]int{3, -1, -1, 5, 5}, 9}}
	if vlib.Thorough() {
		scens = append(scens, scen{[]int{5, -1, 2, -1, 7}, 9}, scen{[]int{6, 0, 0, 6, -1}, 9}, scen{[]int{4}, 4}, scen{[]int{-1, 2, 2, 8, 8}, 8}, scen{[]int{1, 2, 3, 4, 5}, 40}, scen{[]int{0}, 0}, scen{[]int{16, 16, 17}, 33})
	}
	shard, nshards := vlib.Shard()
	var cases []*FeedCase
	i := 0
	for _, s := range scens {
		for _, w := range allWords(4) {
			i++
			if i%nshards != shard {
				continue
			}
			cases = append(cases, &FeedCase{W: s.w, N: s.n, Word: w})
			// the same word with failures that look like per-request timeouts, cancelled
			// per-request contexts or gRPC Unavailable: transient all the same, because the
			// feeder's own context is alive
			if w != "" {
				cases = append(cases, &FeedCase{W: s.w, N: s.n, Word: w, ErrKind: []string{"timeout", "canceled", "unavailable"}[i%3]})
			}
		}
	}
	if err := runBatch(st, "words", cases); err != nil {
		t.Fatal(err)
	}
	st.SetExhaustive(true)
}

func runBatch(st *vlib.Stats, part string, cases []*FeedCase) error {
	type result struct {
		c       *FeedCase
		nt      bool
		classes []string
		err     error
	}
	results := make([]result, len(cases))
	var wg sync.WaitGroup
	sem := make(chan struct{}, 256)
	for i, c := range cases {
		wg.Add(1)
		go func(i int, c *FeedCase) {
			defer wg.Done()
			sem <- struct{}{}
			defer func() { <-sem }()
			nt, cl, err := runFeedCase(c)
			results[i] = result{c, nt, cl, err}
		}(i, c)
	}
	wg.Wait()
	for _, r := range results {
		st.Record(feedHash(r.c), r.nt, r.classes, vlib.SampleOf(r.c))
	}
	for _, r := range results {
		if r.err != nil {
			vlib.SaveFailure("C13", part, r.c, r.err)
			return fmt.Errorf("C13 violated: %v (case %+v)", r.err, *r.c)
		}
	}
	return nil
}

// TestC13Never: never-clearing faults with a context deadline, and unverifiable
// published checkpoints.
func TestC13Never(t *testing.T) {
	st := vlib.StatsFor("C13", "never", "never-clearing fault at each call site with a context deadline; published checkpoints that do not verify; "+ruleC13)
	var cases []*FeedCase
	for _, never := range []string{"G", "P", "U"} {
		for _, w := range [][]int{{-1}, {3}} {
			cases = append(cases, &FeedCase{W: w, N: 9, Never: never, DeadMs: 1500})
		}
	}
	for _, bad := range []string{"wrongkey", "wrongorigin", "garbage", "trailing-newline", "trailing-space", "trailing-crlf", "leading-newline"} {
		cases = append(cases, &FeedCase{W: []int{3}, N: 9, BadCp: bad})
		cases = append(cases, &FeedCase{W: []int{-1}, N: 9, BadCp: bad})
	}
	if err := runBatch(st, "never", cases); err != nil {
		t.Fatal(err)
	}
}

// TestC13Sizes: all (witness size, log size) pairs fault-free against the stub, incl.
// first use, equality, witness ahead and a witness on the other branch.
func TestC13Sizes(t *testing.T) {
	max := 20
	if vlib.Thorough() {
		max = 40
	}
	st := vlib.StatsFor("C13", "sizes", fmt.Sprintf("exhaustive: all (witness size in {none,0..%d}, log size in 0..%d) pairs fault-free, witness on the same or the other branch, plus all pairs over {5, 2^31, 2^62, 2^63-1, 2^63, 2^63+1, 2^63+5, 2^64-2, 2^64-1}; ", max, max)+ruleC13)
	for w := -1; w <= max; w++ {
		for n := 0; n <= max; n++ {
			for _, stale := range []bool{false, true} {
				c := &FeedCase{W: []int{w}, N: n, WStale: stale, ForkAt: 2, Shape: []string{"", "ext", "lz", "extrasig"}[(w+n+2)%4]}
				if stale && w <= 2 {
					continue
				}
				nt, cl, err := runFeedCase(c)
				st.Record(feedHash(c), nt, cl, vlib.SampleOf(c))
				if err != nil {
					vlib.SaveFailure("C13", "sizes", c, err)
					t.Fatalf("C13 violated: %v (case %+v)", err, *c)
				}
			}
		}
	}
	// a witness whose answer is not a verifiable checkpoint of this log (one byte of junk; a
	// checkpoint signed by somebody else), then an honest answer
	for _, junk := range []int{-2, -3} {
		for _, w := range []int{-1, 0, 3, 9} {
			c := &FeedCase{W: []int{junk, w}, N: 9}
			nt, cl, err := runFeedCase(c)
			st.Record(feedHash(c), nt, cl, vlib.SampleOf(c))
			if err != nil {
				vlib.SaveFailure("C13", "sizes", c, err)
				t.Fatalf("C13 violated: %v (case %+v)", err, *c)
			}
		}
	}
	// sizes no real tree reaches: the comparisons "witness ahead / equal / behind" must hold
	// over the whole uint64 range
	bigs := []uint64{5, 1 << 31, 1 << 62, 1<<63 - 1, 1 << 63, 1<<63 + 1, 1<<63 + 5, ^uint64(0) - 1, ^uint64(0)}
	for _, wb := range bigs {
		for _, nb := range bigs {
			c := &FeedCase{W: []int{1}, N: 1, WBig: wb, NBig: nb}
			nt, cl, err := runFeedCase(c)
			st.Record(feedHash(c), nt, cl, vlib.SampleOf(c))
			if err != nil {
				vlib.SaveFailure("C13", "sizes", c, err)
				t.Fatalf("C13 violated: %v (case %+v)", err, *c)
			}
		}
	}
	st.SetExhaustive(true)
}

// TestC13Real: generated (witness size, log size, fork) against the real witness.
func TestC13Real(t *testing.T) {
	st := vlib.StatsFor("C13", "real", "generated (witness size, log size, honest|forked log) against the real witness through witnessAdapter, mem+sql; "+ruleC13)
	n := 40
	if vlib.Thorough() {
		n = 400
	}
	// the cases are drawn by rapid (one Check call = one batch, so that forked cases,
	// which wait for their context deadline, run concurrently)
	rapid.Check(t, func(rt *rapid.T) {
		var cases []*FeedCase
		for i := 0; i < n; i++ {
			c := &FeedCase{Real: true, Storage: rapid.SampledFrom([]string{"mem", "sql"}).Draw(rt, "storage")}
			c.W = []int{rapid.IntRange(-1, 40).Draw(rt, "w")}
			c.N = rapid.IntRange(0, 60).Draw(rt, "n")
			c.Shape = rapid.SampledFrom([]string{"", "", "ext", "lz", "extrasig"}).Draw(rt, "shape")
			c.Fork = vlib.Pct(rt, 35, "fork")
			c.ForkAt = rapid.IntRange(0, 40).Draw(rt, "forkat")
			cases = append(cases, c)
		}
		if err := runBatch(st, "real", cases); err != nil {
			rt.Fatalf("%v", err)
		}
	})
}

// AdapterCase: what witnessAdapter.GetLatestCheckpoint reports when the storage read
// under it behaves in a given way.
type AdapterCase struct {
	Held    int    `json:"held"`    // size the witness holds (-1 nothing)
	Point   string `json:"point"`   // "" | ReadOps | Read.GetLatest
	Code    string `json:"code"`    // plain | unavailable | internal | deadline
	Storage string `json:"storage"` // mem | sql
	N       int    `json:"n"`       // size the log then publishes (for the feed through the adapter)
	// Route (if set, the fields above except Storage are unused): ONE adapter over one witness
	// through several steps: n > 0 a feed cycle through the adapter with the log at size n;
	// n < 0 the witness is moved to size -n by another route (the bastion endpoint, a second
	// feeder: anything that does not pass through this adapter object)
	Route []int `json:"route,omitempty"`
}

// runAdapterRoute: the adapter is glue, not a witness of its own - after every step it
// reports exactly what the witness holds, every update that reaches the witness through it
// carries the witness's size at that moment as old size, and nothing is submitted while the
// witness is ahead of the log.
func runAdapterRoute(c *AdapterCase) (bool, []string, error) {
	hc := &vlib.HistCase{Prop: "C13", Storage: c.Storage, Seed: "A",
		Logs: []vlib.LogSpec{{Origin: feedOrigin, KeyLabel: "log0", KeyName: "logkey"}}, WKeys: vlib.ProdWKeys}
	e := vlib.NewEnv(hc)
	w, _, closer, err := e.NewWitness()
	if err != nil {
		return false, nil, fmt.Errorf("harness: %v", err)
	}
	defer closer()
	key, id, main := e.LogKeys[0], e.LogIDs[0], e.Branches[0]
	wa := &witnessAdapter{w: w}
	held := func() (uint64, bool) {
		b, err := w.GetCheckpoint(id)
		if err != nil {
			return 0, false
		}
		return e.ScanCheckpoint(b).Size, true
	}
	agree := func(step int) error {
		wb, werr := w.GetCheckpoint(id)
		ab, aerr := wa.GetLatestCheckpoint(context.Background(), id)
		if werr != nil {
			if !errors.Is(aerr, os.ErrNotExist) {
				return fmt.Errorf("after step %d the witness holds nothing, the adapter reports %q, %v", step, ab, aerr)
			}
			return nil
		}
		if aerr != nil || !bytes.Equal(ab, wb) {
			return fmt.Errorf("after step %d of route %v the witness holds %q, but the adapter reports %q, %v as its latest checkpoint", step, c.Route, wb, ab, aerr)
		}
		return nil
	}
	for i, n := range c.Route {
		if n < 0 {
			cur, have := held()
			var proof [][]byte
			if have && cur > 0 {
				proof = main.Consistency(cur, uint64(-n))
			}
			if _, err := w.Update(context.Background(), id, cur, cpBytes(key, main, -n), proof); err != nil {
				return false, nil, fmt.Errorf("harness: moving the witness to %d by another route failed: %v", -n, err)
			}
		} else {
			cur, have := held()
			rec := &recAdapter{inner: wa}
			published := cpBytes(key, main, n)
			opts := feeder.FeedOpts{
				LogID: id, LogOrigin: feedOrigin, LogSigVerifier: key.Verifier(), Witness: rec,
				FetchCheckpoint: func(ctx context.Context) ([]byte, error) { return published, nil },
				FetchProof: func(ctx context.Context, from, to log.Checkpoint) ([][]byte, error) {
					if from.Size == 0 {
						return [][]byte{}, nil
					}
					return main.Consistency(from.Size, to.Size), nil
				},
			}
			ctx, cancel := context.WithTimeout(context.Background(), 3*time.Second)
			_, ferr := feeder.FeedOnce(ctx, opts)
			cancel()
			rec.mu.Lock()
			var ups []call
			for _, cl := range rec.calls {
				if cl.Kind == "U" {
					ups = append(ups, cl)
				}
			}
			rec.mu.Unlock()
			switch {
			case have && cur > uint64(n):
				if len(ups) != 0 || ferr == nil {
					return true, nil, fmt.Errorf("step %d of route %v: the witness is at %d, ahead of the log's %d, but %d update(s) were submitted through the adapter (FeedOnce err=%v)", i, c.Route, cur, n, len(ups), ferr)
				}
			default:
				if ferr != nil || len(ups) != 1 || ups[0].Old != cur {
					olds := []uint64{}
					for _, u := range ups {
						olds = append(olds, u.Old)
					}
					return true, nil, fmt.Errorf("step %d of route %v: witness at %d (held=%v), log at %d: want one update with old size %d and success; got updates with old sizes %v, FeedOnce err=%v", i, c.Route, cur, have, n, cur, olds, ferr)
				}
			}
		}
		if err := agree(i); err != nil {
			return true, nil, err
		}
	}
	return true, []string{"adapter-route"}, nil
}

type recAdapter struct {
	inner feeder.Witness
	mu    sync.Mutex
	calls []call
}

func (r *recAdapter) GetLatestCheckpoint(ctx context.Context, logID string) ([]byte, error) {
	b, err := r.inner.GetLatestCheckpoint(ctx, logID)
	r.mu.Lock()
	r.calls = append(r.calls, call{Kind: "G", Ret: b, Failed: err != nil})
	r.mu.Unlock()
	return b, err
}

func (r *recAdapter) Update(ctx context.Context, logID string, oldSize uint64, newCP []byte, proof [][]byte) ([]byte, error) {
	b, err := r.inner.Update(ctx, logID, oldSize, newCP, proof)
	r.mu.Lock()
	r.calls = append(r.calls, call{Kind: "U", Old: oldSize, Failed: err != nil})
	r.mu.Unlock()
	return b, err
}

func runAdapterCase(c *AdapterCase) (bool, []string, error) {
	if len(c.Route) > 0 {
		return runAdapterRoute(c)
	}
	hc := &vlib.HistCase{Prop: "C13", Storage: c.Storage, Seed: "A", Logs: []vlib.LogSpec{{Origin: feedOrigin, KeyLabel: "log0", KeyName: "logkey"}}, WKeys: vlib.ProdWKeys}
	e := vlib.NewEnv(hc)
	t, closer, err := e.NewInstrumentedWitness()
	if err != nil {
		return false, nil, fmt.Errorf("harness: %v", err)
	}
	defer closer()
	key, id, main := e.LogKeys[0], e.LogIDs[0], e.Branches[0]
	if c.Held >= 0 {
		if _, err := t.W.Update(context.Background(), id, 0, cpBytes(key, main, c.Held), nil); err != nil {
			return false, nil, fmt.Errorf("harness: plant: %v", err)
		}
	}
	wa := &witnessAdapter{w: t.W}
	cls := fmt.Sprintf("adapter:held=%v,fault=%q", c.Held >= 0, c.Point)
	// 1. the adapter's own answer
	if c.Point != "" {
		t.IP.Arm(vlib.FaultSpec{Point: c.Point, Code: c.Code})
	}
	b, gerr := wa.GetLatestCheckpoint(context.Background(), id)
	fired := t.IP.FiredFaults()
	t.IP.Disarm()
	switch {
	case len(fired) > 0:
		if gerr == nil {
			return true, []string{cls}, fmt.Errorf("the storage read failed (%v) but the adapter reported no error (%d bytes): the feeder will take this for 'no checkpoint yet'", fired, len(b))
		}
		if errors.Is(gerr, os.ErrNotExist) {
			return true, []string{cls}, fmt.Errorf("the storage read failed (%v) and the adapter reported 'does not exist': a read error is treated as first use", fired)
		}
	case c.Held < 0:
		if !errors.Is(gerr, os.ErrNotExist) {
			return true, []string{cls}, fmt.Errorf("witness holds nothing: adapter returned (%d bytes, %v), want os.ErrNotExist", len(b), gerr)
		}
	default:
		want, _ := t.W.GetCheckpoint(id)
		if gerr != nil || !bytes.Equal(b, want) {
			return true, []string{cls}, fmt.Errorf("witness holds size %d: adapter returned (%d bytes, %v)", c.Held, len(b), gerr)
		}
	}
	// 2. a feed cycle through the adapter with one transient read failure: the feeder must
	//    never present a known log as first use
	rec := &recAdapter{inner: wa}
	published := cpBytes(key, main, c.N)
	armed := c.Point != ""
	opts := feeder.FeedOpts{
		LogID: id, LogOrigin: feedOrigin, LogSigVerifier: key.Verifier(), Witness: rec,
		FetchCheckpoint: func(ctx context.Context) ([]byte, error) {
			if armed {
				armed = false
				t.IP.Arm(vlib.FaultSpec{Point: c.Point, Code: c.Code}) // hits the read of the first attempt only
			}
			return published, nil
		},
		FetchProof: func(ctx context.Context, from, to log.Checkpoint) ([][]byte, error) {
			if from.Size == 0 {
				return [][]byte{}, nil
			}
			return main.Consistency(from.Size, to.Size), nil
		},
	}
	ctx, cancel := context.WithTimeout(context.Background(), 5*time.Second)
	defer cancel()
	_, ferr := feeder.FeedOnce(ctx, opts)
	t.IP.Disarm()
	for _, cl := range rec.calls {
		if cl.Kind == "U" && c.Held > 0 && cl.Old == 0 {
			return true, []string{cls}, fmt.Errorf("after a failed read the feeder asked the witness (holding size %d) for an update with old size 0: an unjustified first-use step", c.Held)
		}
	}
	if c.Held >= 0 && c.Held <= c.N && !(c.Held == 0 && c.N > 0) && ferr != nil {
		return true, []string{cls}, fmt.Errorf("one transient read failure, honest log %d -> %d: FeedOnce failed: %v", c.Held, c.N, ferr)
	}
	return true, []string{cls}, nil
}

func TestC13Adapter(t *testing.T) {
	st := vlib.StatsFor("C13", "adapter", "exhaustive: witnessAdapter over a real witness whose storage read is made to fail at {ReadOps, Read.GetLatest} with {plain, Unavailable, Internal, DeadlineExceeded} errors, witness holding {nothing, 0, 3, 9}, mem+sql: the adapter must report an error that is not 'does not exist', and a feed cycle with that one transient failure must never present the log as first use and must succeed; plus routes in which ONE adapter serves several feed cycles while the witness is also moved by other routes in between (after every step the adapter reports exactly the witness's checkpoint, updates carry the witness's current size, nothing is sent while the witness is ahead); non-trivial = a fault was injected while the witness held a checkpoint, or a route")
	var cases []*AdapterCase
	for _, storage := range []string{"mem", "sql"} {
		for _, held := range []int{-1, 0, 3, 9} {
			for _, point := range []string{"", vlib.PReadOps, vlib.PReadGet} {
				for _, code := range []string{"plain", "unavailable", "internal", "deadline"} {
					if point == "" && code != "plain" {
						continue
					}
					cases = append(cases, &AdapterCase{Held: held, Point: point, Code: code, Storage: storage, N: 12})
				}
			}
		}
	}
	for _, storage := range []string{"mem", "sql"} {
		for _, route := range [][]int{{3, -5, 9}, {3, -9, 5, 9}, {-4, 6, -8, 8, 12}, {2, 2, -3, 3}} {
			cases = append(cases, &AdapterCase{Storage: storage, Route: route})
		}
	}
	// the feed cycle with a transient failure sleeps in the real back-off: run concurrently
	type res struct {
		nt  bool
		cl  []string
		err error
	}
	results := make([]res, len(cases))
	var wg sync.WaitGroup
	for i, c := range cases {
		wg.Add(1)
		go func(i int, c *AdapterCase) {
			defer wg.Done()
			nt, cl, err := runAdapterCase(c)
			results[i] = res{nt, cl, err}
		}(i, c)
	}
	wg.Wait()
	for i, c := range cases {
		b, _ := json.Marshal(c)
		st.Record(string(b), results[i].nt && ((c.Point != "" && c.Held >= 0) || len(c.Route) > 0), results[i].cl, vlib.SampleOf(c))
	}
	for i, c := range cases {
		if err := results[i].err; err != nil {
			b, _ := json.Marshal(c)
			vlib.SaveFailure("C13", "adapter", c, err)
			t.Fatalf("C13 violated: %v (case %s)", err, b)
		}
	}
	st.SetExhaustive(true)
}

func init() {
	vlib.Replayers["C13/adapter"] = func(raw json.RawMessage) error {
		var c AdapterCase
		if err := json.Unmarshal(raw, &c); err != nil {
			return err
		}
		_, _, err := runAdapterCase(&c)
		return err
	}
	r := func(raw json.RawMessage) error {
		var c FeedCase
		if err := json.Unmarshal(raw, &c); err != nil {
			return err
		}
		_, _, err := runFeedCase(&c)
		return err
	}
	for _, p := range []string{"words", "never", "sizes", "real"} {
		vlib.Replayers["C13/"+p] = r
	}
}
