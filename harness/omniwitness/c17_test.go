//go:build verif

package omniwitness

import (
	"golang.org/x/mod/sumdb/tlog"
	"io"
	"bytes"
	"sort"
	"context"
	_ "embed"
	"encoding/json"
	"errors"
	"fmt"
	"net"
	"net/http"
	"net/url"
	"os"
	"strings"
	"sync"
	"testing"
	"time"

	logfmt "github.com/transparency-dev/formats/log"
	"github.com/transparency-dev/witness/internal/config"
	"github.com/transparency-dev/witness/internal/persistence/inmemory"
	"github.com/transparency-dev/witness/internal/verifh/vlib"
	"golang.org/x/mod/sumdb/note"
	"gopkg.in/yaml.v3"
)

//go:embed logs_test.yaml
var verifTestConfigLogs []byte

// refusingTransport records every request and refuses it.
type refusingTransport struct {
	mu   sync.Mutex
	reqs []*url.URL
}

func (r *refusingTransport) RoundTrip(req *http.Request) (*http.Response, error) {
	r.mu.Lock()
	u := *req.URL
	r.reqs = append(r.reqs, &u)
	r.mu.Unlock()
	return nil, errors.New("verif: network refused")
}

type nullWitness struct{}

func (nullWitness) GetLatestCheckpoint(ctx context.Context, logID string) ([]byte, error) {
	return nil, os.ErrNotExist
}
func (nullWitness) Update(ctx context.Context, logID string, oldSize uint64, newCP []byte, proof [][]byte) ([]byte, error) {
	return nil, errors.New("null witness")
}

// checkConfig is the C17 oracle over one YAML document. It returns the per-entry
// classes and the first incoherence found.
func checkConfig(doc []byte) ([]string, error) {
	logCfg := LogConfig{}
	if err := yaml.Unmarshal(doc, &logCfg); err != nil {
		return nil, fmt.Errorf("configuration does not unmarshal: %v", err)
	}
	if len(logCfg.Logs) == 0 {
		return nil, fmt.Errorf("configuration has no logs")
	}
	m, err := logCfg.AsLogMap()
	if err != nil {
		return nil, fmt.Errorf("AsLogMap: %v", err)
	}
	// the URLs as written in the file, read without the loader's own types
	var rawDoc struct {
		Logs []struct {
			URL string `yaml:"URL"`
		} `yaml:"Logs"`
	}
	if err := yaml.Unmarshal(doc, &rawDoc); err != nil || len(rawDoc.Logs) != len(logCfg.Logs) {
		return nil, fmt.Errorf("harness: schema-less decode of the configuration: %v (%d entries vs %d)", err, len(rawDoc.Logs), len(logCfg.Logs))
	}
	var classes []string
	ids := map[string]string{}
	for li, l := range logCfg.Logs {
		lc, err := config.NewLog(l.Origin, l.PublicKey, l.URL)
		if err != nil {
			return classes, fmt.Errorf("entry %q: public key does not parse into a verifier: %v", l.Origin, err)
		}
		if l.Origin == "" {
			return classes, fmt.Errorf("entry with empty origin")
		}
		if prev, dup := ids[lc.ID]; dup {
			return classes, fmt.Errorf("entries %q and %q share the ID %s", prev, l.Origin, lc.ID)
		}
		ids[lc.ID] = l.Origin
		wi, ok := m[lc.ID]
		if !ok {
			return classes, fmt.Errorf("entry %q: ID %s used by feeders/bastion/distributor is not a key of the witness map", l.Origin, lc.ID)
		}
		if wi.Origin != l.Origin || wi.SigV.Name() != lc.Verifier.Name() || wi.SigV.KeyHash() != lc.Verifier.KeyHash() {
			return classes, fmt.Errorf("entry %q: witness map and feeder list disagree on origin/key", l.Origin)
		}
		if lc.ID != logfmt.ID(l.Origin) {
			return classes, fmt.Errorf("entry %q: ID is not the ID of its origin", l.Origin)
		}
		if l.Feeder < Serverless || l.Feeder > None {
			return classes, fmt.Errorf("entry %q: feeder enum %d is not a known feeder (FeedFunc would panic)", l.Origin, l.Feeder)
		}
		name := "none"
		for n, v := range feederByName {
			if v == l.Feeder {
				name = n
			}
		}
		classes = append(classes, "feeder:"+name)
		if l.Feeder == None {
			// bastion-only log: the URL is informational
			continue
		}
		u, err := url.Parse(l.URL)
		if err != nil || (u.Scheme != "http" && u.Scheme != "https") || u.Host == "" {
			return classes, fmt.Errorf("entry %q: URL %q is not an absolute http(s) URL", l.Origin, l.URL)
		}
		// start the feeder for one cycle against a network that refuses everything
		rt := &refusingTransport{}
		var ferr error
		var panicked any
		done := make(chan struct{})
		go func() {
			defer close(done)
			defer func() { panicked = recover() }()
			ctx, cancel := context.WithTimeout(context.Background(), 20*time.Second)
			defer cancel()
			ferr = l.Feeder.FeedFunc()(ctx, lc, nullWitness{}, &http.Client{Transport: rt}, 0)
		}()
		select {
		case <-done:
		case <-time.After(40 * time.Second):
			return classes, fmt.Errorf("entry %q: feeder did not return within 40s against a refusing network", l.Origin)
		}
		if panicked != nil {
			return classes, fmt.Errorf("entry %q: feeder panicked at start: %v", l.Origin, panicked)
		}
		if ferr == nil {
			return classes, fmt.Errorf("entry %q: feeder reported success against a network that refuses every request", l.Origin)
		}
		if len(rt.reqs) == 0 {
			return classes, fmt.Errorf("entry %q: feeder gave up before making any request (its URL %q cannot be started from): %v", l.Origin, l.URL, ferr)
		}
		// every request stays inside the directory of the URL as written in the file
		// (RFC 3986 resolution: up to and including its last slash)
		if ru, rerr := url.Parse(strings.TrimSpace(rawDoc.Logs[li].URL)); rerr == nil {
			dir := ru.Path[:strings.LastIndex(ru.Path, "/")+1]
			if dir == "" {
				dir = "/"
			}
			for _, r := range rt.reqs {
				if !strings.EqualFold(r.Host, ru.Host) || !strings.HasPrefix(r.Path, dir) {
					return classes, fmt.Errorf("entry %q: the file gives URL %q but the feeder requested %q, outside %s%s", l.Origin, rawDoc.Logs[li].URL, r.String(), ru.Host, dir)
				}
			}
		}
		for _, r := range rt.reqs {
			if (r.Scheme != "http" && r.Scheme != "https") || r.Host != u.Host {
				return classes, fmt.Errorf("entry %q: feeder requested %q, which is not on the configured host %q", l.Origin, r.String(), u.Host)
			}
			if !strings.HasPrefix(r.Path, strings.TrimSuffix(u.Path, "/")) && !strings.HasPrefix(r.Path+"/", u.Path) {
				// all shipped feeders resolve their requests under the configured path
				dir := u.Path[:strings.LastIndex(u.Path, "/")+1]
				if !strings.HasPrefix(r.Path, dir) {
					return classes, fmt.Errorf("entry %q: feeder requested path %q outside the configured base %q", l.Origin, r.Path, u.Path)
				}
			}
		}
	}
	for li, l := range logCfg.Logs {
		if l.Feeder == None {
			continue
		}
		if err := feedShippedEntry(l, rawDoc.Logs[li].URL); err != nil {
			return classes, err
		}
	}
	if len(ids) != len(m) {
		return classes, fmt.Errorf("witness map has %d logs, feeder list %d", len(m), len(ids))
	}
	return classes, nil
}

// feedShippedEntry feeds one shipped entry for real: same origin, same URL string, same
// feeder function as Main would use, but a key of the harness (so that a checkpoint can be
// signed) and a network stub that serves a first checkpoint exactly where a log living at
// the URL AS WRITTEN IN THE FILE serves it. The recording witness must receive it.
func feedShippedEntry(l LogInfo, rawURL string) error {
	ru, err := url.Parse(strings.TrimSpace(rawURL))
	if err != nil {
		return fmt.Errorf("harness: %v", err)
	}
	key := vlib.NewKey("c17.example/substitute", "c17-substitute")
	lc, err := config.NewLog(l.Origin, key.VKey(), l.URL)
	if err != nil {
		return fmt.Errorf("harness: %v", err)
	}
	br := vlib.RootBranch("C17", 0)
	root := br.Root(5)
	text := vlib.CheckpointText(l.Origin, 5, root[:], nil)
	if l.Feeder == SumDB {
		text = string(tlog.FormatTree(tlog.Tree{N: 5, Hash: tlog.Hash(root)}))
	}
	cp := vlib.Note(text, key.SigLine(text))
	dir := ru.Path[:strings.LastIndex(ru.Path, "/")+1]
	if dir == "" {
		dir = "/"
	}
	var seen []string
	var mu sync.Mutex
	serve := rtFunc17(func(req *http.Request) (*http.Response, error) {
		mu.Lock()
		seen = append(seen, req.URL.String())
		mu.Unlock()
		mk := func(code int, body []byte) (*http.Response, error) {
			return &http.Response{StatusCode: code, Status: fmt.Sprint(code), Header: http.Header{}, Body: io.NopCloser(bytes.NewReader(body)), Request: req, ContentLength: int64(len(body))}, nil
		}
		if !strings.EqualFold(req.URL.Host, ru.Host) {
			return mk(404, []byte("no such host here"))
		}
		switch req.URL.Path {
		case dir + "checkpoint", dir + "checkpoint.txt", strings.TrimSuffix(ru.Path, "/") + "/latest":
			return mk(200, cp)
		case dir + "api/v1/log":
			// a Rekor that has exactly the shard the file names
			b, _ := json.Marshal(map[string]any{"treeID": "1", "signedTreeHead": "not this one", "inactiveShards": []any{
				map[string]any{"treeID": ru.Query().Get("treeID"), "signedTreeHead": string(cp)}}})
			return mk(200, b)
		}
		return mk(404, []byte("not found"))
	})
	rw := &recordingWitness17{}
	ctx, cancel := context.WithTimeout(context.Background(), 20*time.Second)
	defer cancel()
	done := make(chan error, 1)
	go func() {
		defer func() {
			if p := recover(); p != nil {
				done <- fmt.Errorf("panic: %v", p)
			}
		}()
		done <- l.Feeder.FeedFunc()(ctx, lc, rw, &http.Client{Transport: serve, Timeout: 5 * time.Second}, 0)
	}()
	var ferr error
	select {
	case ferr = <-done:
	case <-time.After(40 * time.Second):
		return fmt.Errorf("entry %q: feeder did not return within 40s", l.Origin)
	}
	rw.mu.Lock()
	defer rw.mu.Unlock()
	if len(rw.cps) != 1 || !bytes.Equal(rw.cps[0], cp) || rw.ids[0] != lc.ID {
		mu.Lock()
		defer mu.Unlock()
		return fmt.Errorf("entry %q (%s): a log serving its first checkpoint at the URL written in the file (%s) cannot be fed: feeder returned %v, the witness received %d updates; requests made: %v", l.Origin, feederName(l.Feeder), rawURL, ferr, len(rw.cps), seen)
	}
	return nil
}

func feederName(f Feeder) string {
	for n, v := range feederByName {
		if v == f {
			return n
		}
	}
	return "?"
}

type rtFunc17 func(*http.Request) (*http.Response, error)

func (f rtFunc17) RoundTrip(r *http.Request) (*http.Response, error) { return f(r) }

type recordingWitness17 struct {
	mu  sync.Mutex
	ids []string
	cps [][]byte
}

func (w *recordingWitness17) GetLatestCheckpoint(ctx context.Context, logID string) ([]byte, error) {
	return nil, os.ErrNotExist
}

func (w *recordingWitness17) Update(ctx context.Context, logID string, oldSize uint64, newCP []byte, proof [][]byte) ([]byte, error) {
	w.mu.Lock()
	defer w.mu.Unlock()
	w.ids = append(w.ids, logID)
	w.cps = append(w.cps, append([]byte{}, newCP...))
	return newCP, nil
}

type cfgMutation struct {
	File  string `json:"file"`
	Kind  string `json:"kind"`
	Entry int    `json:"entry"`
}

func mutateConfig(doc []byte, kind string, entry int) ([]byte, bool) {
	cfg := LogConfig{}
	type rawInfo struct {
		Origin    string `yaml:"Origin"`
		PublicKey string `yaml:"PublicKey"`
		URL       string `yaml:"URL"`
		Feeder    string `yaml:"Feeder"`
	}
	var raw struct {
		Logs []rawInfo `yaml:"Logs"`
	}
	if yaml.Unmarshal(doc, &raw) != nil || yaml.Unmarshal(doc, &cfg) != nil || entry >= len(raw.Logs) {
		return nil, false
	}
	e := &raw.Logs[entry]
	switch kind {
	case "duplicate-origin":
		d := *e
		d.URL = "https://mirror.example/"
		raw.Logs = append(raw.Logs, d)
	case "truncated-key":
		e.PublicKey = e.PublicKey[:len(e.PublicKey)-3]
	case "key-missing-part":
		i := strings.LastIndex(e.PublicKey, "+")
		e.PublicKey = e.PublicKey[:i]
	case "unknown-feeder":
		e.Feeder = "tile"
	case "drop-treeid":
		if !strings.Contains(e.URL, "treeID=") {
			return nil, false
		}
		e.URL = e.URL[:strings.Index(e.URL, "?")]
	case "ftp-scheme":
		if strings.EqualFold(e.Feeder, "none") {
			return nil, false
		}
		e.URL = "ftp" + e.URL[strings.Index(e.URL, ":"):]
	case "relative-url":
		if strings.EqualFold(e.Feeder, "none") {
			return nil, false
		}
		e.URL = strings.TrimPrefix(strings.TrimPrefix(e.URL, "https://"), "http://")
	case "empty-origin":
		e.Origin = ""
	default:
		return nil, false
	}
	out, err := yaml.Marshal(raw)
	if err != nil {
		return nil, false
	}
	return out, true
}

// startMain runs the real Main on the given configuration (no polling, no bastion, no
// distributor, loopback listener, in-memory storage) and requires it to come up.
func startMain(doc []byte) error {
	configMu.Lock()
	defer configMu.Unlock()
	saved := ConfigLogs
	ConfigLogs = doc
	defer func() { ConfigLogs = saved }()
	ln, err := net.Listen("tcp", "127.0.0.1:0")
	if err != nil {
		return fmt.Errorf("harness: %v", err)
	}
	wk := vlib.NewKey("witness.example/w", "wit")
	ctx, cancel := context.WithCancel(context.Background())
	done := make(chan error, 1)
	var panicked any
	go func() {
		defer func() {
			if p := recover(); p != nil {
				panicked = p
				done <- fmt.Errorf("panic: %v", p)
			}
		}()
		done <- Main(ctx, OperatorConfig{WitnessKeys: []note.Signer{wk.Signer(), wk.CosigSigner()}, WitnessVerifier: vlib.WitnessKey{K: wk, Kind: vlib.WKCosig}.Verifier()},
			inmemory.NewPersistence(), ln, &http.Client{Transport: &refusingTransport{}})
	}()
	defer func() {
		cancel()
		select {
		case <-done:
		case <-time.After(20 * time.Second):
		}
		ln.Close()
	}()
	deadline := time.Now().Add(20 * time.Second)
	for {
		select {
		case err := <-done:
			done <- err
			if panicked != nil {
				return fmt.Errorf("Main panicked at start-up with the shipped configuration: %v", panicked)
			}
			return fmt.Errorf("Main stopped at start-up with the shipped configuration: %v", err)
		default:
		}
		resp, err := (&http.Client{Timeout: 500 * time.Millisecond}).Get("http://" + ln.Addr().String() + "/witness/v0/logs")
		if err == nil {
			resp.Body.Close()
			if resp.StatusCode == 200 {
				return nil
			}
		}
		if time.Now().After(deadline) {
			return fmt.Errorf("Main did not start serving within 20s with the shipped configuration (last: %v)", err)
		}
		time.Sleep(20 * time.Millisecond)
	}
}

// startMainPolling runs the real Main on the configuration with polling enabled against
// a network that refuses (and records) everything: every entry with a feeder must get a
// feeder that works from THAT entry's URL — the witness map and the feeder list describe
// the same logs — and Main must stay up while the network is down.
func startMainPolling(doc []byte) error {
	configMu.Lock()
	defer configMu.Unlock()
	saved := ConfigLogs
	ConfigLogs = doc
	defer func() { ConfigLogs = saved }()
	var rawDoc struct {
		Logs []struct {
			Origin string `yaml:"Origin"`
			URL    string `yaml:"URL"`
			Feeder string `yaml:"Feeder"`
		} `yaml:"Logs"`
	}
	if err := yaml.Unmarshal(doc, &rawDoc); err != nil {
		return fmt.Errorf("harness: %v", err)
	}
	ln, err := net.Listen("tcp", "127.0.0.1:0")
	if err != nil {
		return fmt.Errorf("harness: %v", err)
	}
	rt := &refusingTransport{}
	rp := &readRecorder{LogStatePersistence: inmemory.NewPersistence(), read: map[string]int{}}
	wk := vlib.NewKey("witness.example/w", "wit")
	ctx, cancel := context.WithCancel(context.Background())
	done := make(chan error, 1)
	go func() {
		defer func() {
			if p := recover(); p != nil {
				done <- fmt.Errorf("panic: %v", p)
			}
		}()
		done <- Main(ctx, OperatorConfig{WitnessKeys: []note.Signer{wk.Signer(), wk.CosigSigner()}, WitnessVerifier: vlib.WitnessKey{K: wk, Kind: vlib.WKCosig}.Verifier(), FeedInterval: 200 * time.Millisecond,
			RestDistributorBaseURL: "http://distributor.invalid", DistributeInterval: 200 * time.Millisecond},
			rp, ln, &http.Client{Transport: rt})
	}()
	defer func() {
		cancel()
		select {
		case <-done:
		case <-time.After(20 * time.Second):
		}
		ln.Close()
	}()
	deadline := time.Now().Add(30 * time.Second)
	for {
		select {
		case err := <-done:
			return fmt.Errorf("Main with polling enabled stopped although only the network is down: %v", err)
		default:
		}
		rt.mu.Lock()
		reqs := append([]*url.URL{}, rt.reqs...)
		rt.mu.Unlock()
		var missing []string
		for _, l := range rawDoc.Logs {
			if strings.EqualFold(strings.TrimSpace(l.Feeder), "none") {
				continue
			}
			ru, perr := url.Parse(strings.TrimSpace(l.URL))
			if perr != nil {
				return fmt.Errorf("harness: URL %q: %v", l.URL, perr)
			}
			dir := ru.Path[:strings.LastIndex(ru.Path, "/")+1]
			if dir == "" {
				dir = "/"
			}
			seen := false
			for _, r := range reqs {
				if strings.EqualFold(r.Host, ru.Host) && strings.HasPrefix(r.Path, dir) {
					seen = true
				}
			}
			if !seen {
				missing = append(missing, fmt.Sprintf("%q (%s, %s)", l.Origin, l.Feeder, l.URL))
			}
		}
		// the distributor asks the witness about every configured log, polled or not: the
		// list it was given is the configured list
		for _, l := range rawDoc.Logs {
			if rp.count(logfmt.ID(l.Origin)) == 0 {
				missing = append(missing, fmt.Sprintf("%q (never asked about by the distributor: the log list handed to it is not the configured one)", l.Origin))
			}
		}
		if len(missing) == 0 {
			return nil
		}
		if time.Now().After(deadline) {
			var got []string
			for _, r := range reqs {
				got = append(got, r.String())
			}
			sort.Strings(got)
			return fmt.Errorf("30s (150 poll intervals) after Main started with polling enabled no request has been made from the URL of / no question asked about %v; requests seen: %v", missing, uniq(got))
		}
		time.Sleep(50 * time.Millisecond)
	}
}

// readRecorder counts the reads of each log's state.
type readRecorder struct {
	LogStatePersistence
	mu   sync.Mutex
	read map[string]int
}

func (r *readRecorder) ReadOps(logID string) (LogStateReadOps, error) {
	r.mu.Lock()
	r.read[logID]++
	r.mu.Unlock()
	return r.LogStatePersistence.ReadOps(logID)
}

func (r *readRecorder) count(id string) int {
	r.mu.Lock()
	defer r.mu.Unlock()
	return r.read[id]
}

func uniq(s []string) []string {
	var out []string
	for i, x := range s {
		if i == 0 || x != s[i-1] {
			out = append(out, x)
		}
	}
	if len(out) > 40 {
		out = out[:40]
	}
	return out
}

func TestC17(t *testing.T) {
	st := vlib.StatsFor("C17", "shipped", "exhaustive: every entry of omniwitness/logs.yaml and logs_test.yaml as found in the working tree goes through the loader functions Main uses and one feeder cycle against a refusing network; non-trivial = an entry with a feeder (URL actually started from); distinct by origin")
	sm := vlib.StatsFor("C17", "loader-mutations", "sensitivity of the oracle: each entry x 8 configuration defects must be rejected by the same oracle; non-trivial = any")
	for _, f := range []struct {
		name string
		doc  []byte
	}{{"logs.yaml", ConfigLogs}, {"logs_test.yaml", verifTestConfigLogs}} {
		classes, err := checkConfig(f.doc)
		cfg := LogConfig{}
		_ = yaml.Unmarshal(f.doc, &cfg)
		for i, l := range cfg.Logs {
			cl := []string{"file:" + f.name}
			if i < len(classes) {
				cl = append(cl, classes[i])
			}
			st.Record(f.name+"/"+l.Origin, l.Feeder != None, cl, map[string]any{"file": f.name, "origin": l.Origin, "url": l.URL, "feeder": fmt.Sprint(l.Feeder)})
		}
		if err == nil {
			// and the assembled service itself must come up with it
			err = startMain(f.doc)
			st.Record(f.name+"/Main", true, []string{"main-starts:" + f.name}, map[string]any{"file": f.name, "check": "omniwitness.Main starts serving"})
		}
		if err == nil {
			err = startMainPolling(f.doc)
			st.Record(f.name+"/Main-polling", true, []string{"main-polls-every-entry:" + f.name}, map[string]any{"file": f.name, "check": "omniwitness.Main with polling: a request from the URL of every entry that has a feeder"})
		}
		if err != nil {
			c := cfgMutation{File: f.name, Kind: "as-shipped"}
			vlib.SaveFailure("C17", "shipped", c, err)
			t.Fatalf("C17 violated in %s: %v", f.name, err)
		}
		for i := range cfg.Logs {
			for _, kind := range []string{"duplicate-origin", "truncated-key", "key-missing-part", "unknown-feeder", "drop-treeid", "ftp-scheme", "relative-url", "empty-origin"} {
				mut, ok := mutateConfig(f.doc, kind, i)
				if !ok {
					continue
				}
				_, merr := checkConfig(mut)
				sm.Record(fmt.Sprintf("%s/%d/%s", f.name, i, kind), true, []string{"mutation:" + kind}, map[string]any{"file": f.name, "entry": i, "defect": kind, "rejected_with": fmt.Sprint(merr)})
				if merr == nil {
					t.Fatalf("harness: the C17 oracle accepts %s with defect %q in entry %d; it cannot fail", f.name, kind, i)
				}
			}
		}
	}
	st.SetExhaustive(true)
	sm.SetExhaustive(true)
}

func init() {
	vlib.Replayers["C17/shipped"] = func(raw json.RawMessage) error {
		for _, doc := range [][]byte{ConfigLogs, verifTestConfigLogs} {
			if _, err := checkConfig(doc); err != nil {
				return err
			}
			if err := startMain(doc); err != nil {
				return err
			}
		}
		return nil
	}
}
