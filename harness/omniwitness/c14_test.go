//go:build verif

package omniwitness

import (
	"bytes"
	"context"
	"database/sql"
	"encoding/json"
	"fmt"
	"io"
	"net"
	"net/http"
	"net/http/httptest"
	"os"
	"path/filepath"
	"regexp"
	"strconv"
	"strings"
	"sync"
	"testing"
	"time"

	_ "github.com/mattn/go-sqlite3"
	logfmt "github.com/transparency-dev/formats/log"
	"github.com/transparency-dev/witness/internal/persistence/inmemory"
	psql "github.com/transparency-dev/witness/internal/persistence/sql"
	"github.com/transparency-dev/witness/internal/verifh/vlib"
	"golang.org/x/mod/sumdb/note"
	"golang.org/x/mod/sumdb/tlog"
	"pgregory.net/rapid"
)

// ---------------------------------------------------------------------------------
// C14 — the assembled omniwitness follows honest logs and stops at a fork

// OmniStep is one step of a schedule.
type OmniStep struct {
	Kind string `json:"kind"` // grow | grow-outage | fork | heal | restart
	Log  int    `json:"log"`
	Size uint64 `json:"size"`
}

// OmniCase is one run of omniwitness.Main.
type OmniCase struct {
	Storage string     `json:"storage"` // mem | sqlfile
	NTiles  int        `json:"ntiles"`  // number of tiles-type logs (log 0 is the sumdb-type log)
	// NoneAt k > 0: the configuration also lists a bastion-only log (Feeder: none), in
	// front of polled log k-1 (k = NTiles+2: at the end). 0: no such entry.
	NoneAt int        `json:"none_at,omitempty"`
	Steps  []OmniStep `json:"steps"`
}

type stubLog struct {
	kind    string // sumdb | tiles
	origin  string
	key     *vlib.Key
	branch  *vlib.Branch
	size    uint64
	cpGets  int
	served  uint64 // size of the checkpoint handed out last
	// tilesDown: tile requests are answered 503 (the checkpoint is still served)
	tilesDown bool
	// downCode: 503, or 404 (a log whose checkpoint becomes visible before its tiles do)
	downCode int
	// ext: extension lines of the published checkpoint (tiles-type logs only)
	ext []string
	badReqs []string
}

type stubLogs struct {
	mu   sync.Mutex
	logs []*stubLog
	down bool // answer 503 to everything (the logs are unreachable)
}

var tilesPathRE = regexp.MustCompile(`^tile/(\d+)/((?:x\d{3}/)*\d{3})(?:\.p/(\d+))?$`)

func (s *stubLogs) ServeHTTP(w http.ResponseWriter, r *http.Request) {
	s.mu.Lock()
	defer s.mu.Unlock()
	if s.down {
		http.Error(w, "unreachable", http.StatusServiceUnavailable)
		return
	}
	parts := strings.SplitN(strings.TrimPrefix(r.URL.Path, "/"), "/", 2)
	idx, err := strconv.Atoi(strings.TrimPrefix(parts[0], "log"))
	if err != nil || idx < 0 || idx >= len(s.logs) || len(parts) != 2 {
		http.NotFound(w, r)
		return
	}
	l := s.logs[idx]
	p := parts[1]
	if l.size == 0 {
		// the log has not published anything yet
		http.NotFound(w, r)
		return
	}
	root := l.branch.Root(l.size)
	switch l.kind {
	case "sumdb":
		if p == "latest" {
			l.cpGets++
			l.served = l.size
			text := string(tlog.FormatTree(tlog.Tree{N: int64(l.size), Hash: tlog.Hash(root)}))
			_, _ = w.Write(vlib.Note(text, l.key.SigLine(text)))
			return
		}
		if l.tilesDown {
			http.Error(w, "tiles unavailable", l.downCode)
			return
		}
		tile, err := tlog.ParseTilePath(p)
		if err != nil || tile.H != 8 || tile.L < 0 {
			l.badReqs = append(l.badReqs, r.URL.Path)
			http.NotFound(w, r)
			return
		}
		if uint64(tile.N*256+int64(tile.W))<<(uint(8*tile.L)) > l.size {
			http.NotFound(w, r)
			return
		}
		data, err := tlog.ReadTileData(tile, omniHashReader{l.branch})
		if err != nil {
			http.Error(w, err.Error(), 500)
			return
		}
		_, _ = w.Write(data)
	case "tiles":
		if p == "checkpoint" {
			l.cpGets++
			l.served = l.size
			text := vlib.CheckpointText(l.origin, l.size, root[:], l.ext)
			_, _ = w.Write(vlib.Note(text, l.key.SigLine(text)))
			return
		}
		if l.tilesDown {
			http.Error(w, "tiles unavailable", l.downCode)
			return
		}
		m := tilesPathRE.FindStringSubmatch(p)
		if m == nil {
			l.badReqs = append(l.badReqs, r.URL.Path)
			http.NotFound(w, r)
			return
		}
		level, _ := strconv.ParseUint(m[1], 10, 64)
		n, _ := strconv.ParseUint(strings.ReplaceAll(strings.ReplaceAll(m[2], "x", ""), "/", ""), 10, 64)
		width := uint64(256)
		if m[3] != "" {
			width, _ = strconv.ParseUint(m[3], 10, 64)
			if width == 0 || width > 255 {
				l.badReqs = append(l.badReqs, r.URL.Path)
				http.NotFound(w, r)
				return
			}
		}
		if level > 7 || (n*256+width)<<(8*level) > l.size {
			http.NotFound(w, r)
			return
		}
		var buf bytes.Buffer
		for i := uint64(0); i < width; i++ {
			h := l.branch.NodeAt(uint8(8*level), n*256+i)
			buf.Write(h[:])
		}
		_, _ = w.Write(buf.Bytes())
	}
}

type omniHashReader struct{ b *vlib.Branch }

func (r omniHashReader) ReadHashes(indexes []int64) ([]tlog.Hash, error) {
	out := make([]tlog.Hash, len(indexes))
	for i, x := range indexes {
		level, n := tlog.SplitStoredHashIndex(x)
		out[i] = tlog.Hash(r.b.NodeAt(uint8(level), uint64(n)))
	}
	return out, nil
}

var configMu sync.Mutex // ConfigLogs is a package variable

func runOmni(c *OmniCase) (bool, []string, error) {
	configMu.Lock()
	defer configMu.Unlock()
	stubs := &stubLogs{}
	stubs.logs = append(stubs.logs, &stubLog{kind: "sumdb", origin: "go.sum database tree", key: vlib.NewKey("sum.example", "omni-sumdb"), branch: vlib.RootBranch("O0", 0)})
	for i := 0; i < c.NTiles; i++ {
		stubs.logs = append(stubs.logs, &stubLog{kind: "tiles", origin: fmt.Sprintf("tiles.example/log %d", i+1), key: vlib.NewKey(fmt.Sprintf("tiles%d.example", i+1), fmt.Sprintf("omni-tiles%d", i+1)), branch: vlib.RootBranch(fmt.Sprintf("O%d", i+1), 0)})
	}
	srv := httptest.NewServer(stubs)
	defer srv.Close()
	var y strings.Builder
	y.WriteString("Logs:\n")
	noneEntry := func() {
		fmt.Fprintf(&y, "  - Origin: bastion-only.example/log\n    URL: %s/unpolled\n    PublicKey: %s\n    Feeder: none\n", srv.URL, vlib.NewKey("bastiononly.example", "omni-none").VKey())
	}
	for i, l := range stubs.logs {
		if c.NoneAt == i+1 {
			noneEntry()
		}
		fmt.Fprintf(&y, "  - Origin: %s\n    URL: %s/log%d\n    PublicKey: %s\n    Feeder: %s\n", l.origin, srv.URL, i, l.key.VKey(), l.kind)
	}
	if c.NoneAt > len(stubs.logs) {
		noneEntry()
	}
	saved := ConfigLogs
	ConfigLogs = []byte(y.String())
	defer func() { ConfigLogs = saved }()

	wk := vlib.NewKey("witness.example/w", "wit")
	cosig := vlib.WitnessKey{K: wk, Kind: vlib.WKCosig}
	opCfg := OperatorConfig{
		WitnessKeys:     []note.Signer{wk.Signer(), wk.CosigSigner()},
		WitnessVerifier: cosig.Verifier(),
		FeedInterval:    250 * time.Millisecond,
	}
	dir := ""
	newPersistence := func() (LogStatePersistence, func(), error) {
		if c.Storage != "sqlfile" {
			return nil, nil, nil
		}
		if dir == "" {
			base := os.Getenv("VERIF_SCRATCH")
			if base == "" {
				base = os.TempDir()
			}
			d, err := os.MkdirTemp(base, "c14-")
			if err != nil {
				return nil, nil, err
			}
			dir = d
		}
		db, err := sql.Open("sqlite3", filepath.Join(dir, "witness.db"))
		if err != nil {
			return nil, nil, err
		}
		db.SetMaxOpenConns(1)
		return psql.NewPersistence(db), func() { _ = db.Close() }, nil
	}
	defer func() {
		if dir != "" {
			os.RemoveAll(dir)
		}
	}()
	memP := inmemory.NewPersistence()

	type running struct {
		cancel context.CancelFunc
		done   chan error
		addr   string
		closeP func()
	}
	start := func() (*running, error) {
		p, closeP, err := newPersistence()
		if err != nil {
			return nil, err
		}
		if p == nil {
			p, closeP = memP, func() {}
		}
		ln, err := net.Listen("tcp", "127.0.0.1:0")
		if err != nil {
			return nil, err
		}
		ctx, cancel := context.WithCancel(context.Background())
		r := &running{cancel: cancel, done: make(chan error, 1), addr: ln.Addr().String(), closeP: closeP}
		go func() {
			r.done <- Main(ctx, opCfg, p, ln, &http.Client{Timeout: 5 * time.Second})
		}()
		return r, nil
	}
	stop := func(r *running) error {
		r.cancel()
		select {
		case <-r.done:
		case <-time.After(30 * time.Second):
			return fmt.Errorf("Main did not return 30s after its context was cancelled")
		}
		r.closeP()
		return nil
	}
	get := func(r *running, li int) (int, []byte, error) {
		id := logfmt.ID(stubs.logs[li].origin)
		resp, err := verifHTTP.Get("http://" + r.addr + "/witness/v0/logs/" + id + "/checkpoint")
		if err != nil {
			return 0, nil, err
		}
		defer resp.Body.Close()
		b, _ := io.ReadAll(resp.Body)
		return resp.StatusCode, b, nil
	}
	published := func(li int) string {
		stubs.mu.Lock()
		defer stubs.mu.Unlock()
		l := stubs.logs[li]
		root := l.branch.Root(l.size)
		if l.kind == "sumdb" {
			return string(tlog.FormatTree(tlog.Tree{N: int64(l.size), Hash: tlog.Hash(root)}))
		}
		return vlib.CheckpointText(l.origin, l.size, root[:], nil)
	}
	cpGets := func(li int) int {
		stubs.mu.Lock()
		defer stubs.mu.Unlock()
		return stubs.logs[li].cpGets
	}
	validCosigned := func(li int, raw []byte, wantText string) error {
		text, sigs, ok := vlib.SplitNote(raw)
		if !ok {
			return fmt.Errorf("served bytes are not a note: %q", raw)
		}
		if text != wantText {
			return fmt.Errorf("served text %q, want %q", text, wantText)
		}
		logOK, legacyOK, cosigOK := false, false, false
		for _, sg := range sigs {
			if stubs.logs[li].key.VerifyPlain(text, sg) {
				logOK = true
			}
			if wk.VerifyPlain(text, sg) {
				legacyOK = true
			}
			if _, ok := wk.VerifyCosig(text, sg); ok {
				cosigOK = true
			}
		}
		if !logOK || !legacyOK || !cosigOK {
			return fmt.Errorf("served checkpoint lacks a valid signature (log %v, witness legacy %v, witness cosignature %v)", logOK, legacyOK, cosigOK)
		}
		return nil
	}

	run, err := start()
	if err != nil {
		return false, nil, fmt.Errorf("harness: %v", err)
	}
	defer func() {
		stubs.mu.Lock()
		stubs.down = false
		stubs.mu.Unlock()
	}()
	defer func() {
		if run != nil {
			_ = stop(run)
		}
	}()
	witnessed := map[int]string{} // last text the witness is known to serve per log
	forked := map[int]bool{}
	honest := map[int]*vlib.Branch{}  // the branch a forked log left
	lastWitnessed := map[int]string{} // what the witness served for a log when it forked
	var classes []string
	growths, crossed, restarts, forks, heals, outages := 0, false, 0, 0, 0, 0
	for si, st := range c.Steps {
		what := fmt.Sprintf("step %d (%s log %d size %d)", si, st.Kind, st.Log, st.Size)
		switch st.Kind {
		case "grow", "grow-outage":
			if forked[st.Log] {
				continue // the log left its history for good
			}
			stubs.mu.Lock()
			l := stubs.logs[st.Log]
			old := l.size
			if st.Size <= l.size {
				stubs.mu.Unlock()
				continue
			}
			// grow-outage: the new checkpoint is published while the log's tiles cannot be
			// read (503, 404 or 410 by the size) for three polls, i.e. at least one whole feed cycle fails after the
			// checkpoint was fetched; then the tiles come back and the log does NOT grow again
			outage := st.Kind == "grow-outage" && old > 0
			l.tilesDown = outage
			l.downCode = []int{http.StatusServiceUnavailable, http.StatusNotFound, http.StatusGone}[int(st.Size)%3]
			base := l.cpGets
			l.size = st.Size
			stubs.mu.Unlock()
			if outage {
				for dl := time.Now().Add(30 * time.Second); cpGets(st.Log) < base+3 && time.Now().Before(dl); {
					time.Sleep(20 * time.Millisecond)
				}
				stubs.mu.Lock()
				l.tilesDown = false
				stubs.mu.Unlock()
				outages++
			}
			growths++
			if old/256 != st.Size/256 {
				crossed = true
			}
			want := published(st.Log)
			deadline := time.Now().Add(60 * time.Second)
			var last string
			for {
				code, b, err := get(run, st.Log)
				if err == nil && code == 200 {
					if verr := validCosigned(st.Log, b, want); verr == nil {
						break
					} else {
						last = verr.Error()
					}
				} else {
					last = fmt.Sprintf("status %d err %v", code, err)
				}
				if time.Now().After(deadline) {
					return true, classes, fmt.Errorf("%s: 60s (240 poll intervals, %d checkpoint fetches seen) after the log published size %d the witness still does not serve it: %s", what, cpGets(st.Log), st.Size, last)
				}
				time.Sleep(40 * time.Millisecond)
			}
			witnessed[st.Log] = want
			classes = append(classes, "followed:"+stubs.logs[st.Log].kind)
		case "fork":
			if witnessed[st.Log] == "" {
				continue
			}
			stubs.mu.Lock()
			l := stubs.logs[st.Log]
			if l.size < 2 {
				stubs.mu.Unlock()
				continue
			}
			// a history that is not an extension of what was witnessed
			honest[st.Log] = l.branch
			l.branch = l.branch.ForkAt(l.size-1, si)
			if st.Size > l.size {
				l.size = st.Size
			}
			base := l.cpGets
			stubs.mu.Unlock()
			forks++
			deadline := time.Now().Add(60 * time.Second)
			for cpGets(st.Log) < base+4 {
				if time.Now().After(deadline) {
					return true, classes, fmt.Errorf("%s: the feeder stopped polling the log", what)
				}
				time.Sleep(40 * time.Millisecond)
			}
			code, b, err := get(run, st.Log)
			if err != nil || code != 200 {
				return true, classes, fmt.Errorf("%s: GET after fork: status %d err %v", what, code, err)
			}
			if verr := validCosigned(st.Log, b, witnessed[st.Log]); verr != nil {
				return true, classes, fmt.Errorf("%s: the log now serves a fork; the witness must stay on the witnessed history: %v", what, verr)
			}
			classes = append(classes, "stayed-at-fork:"+stubs.logs[st.Log].kind)
			// the fork stays published: the log is lost until a heal step
			lastWitnessed[st.Log] = witnessed[st.Log]
			delete(witnessed, st.Log)
			forked[st.Log] = true
		case "heal":
			// the log goes back to the history the witness knows, at the size the fork had
			// reached: from the witness's point of view an ordinary growth (or nothing new)
			if !forked[st.Log] || honest[st.Log] == nil {
				continue
			}
			stubs.mu.Lock()
			l := stubs.logs[st.Log]
			l.branch = honest[st.Log]
			stubs.mu.Unlock()
			forked[st.Log] = false
			heals++
			want := published(st.Log)
			deadline := time.Now().Add(60 * time.Second)
			var last string
			for {
				code, b, err := get(run, st.Log)
				if err == nil && code == 200 {
					if verr := validCosigned(st.Log, b, want); verr == nil {
						break
					} else {
						last = verr.Error()
					}
				} else {
					last = fmt.Sprintf("status %d err %v", code, err)
				}
				if time.Now().After(deadline) {
					return true, classes, fmt.Errorf("%s: 60s (240 poll intervals) after the log returned from a (refused) fork to its witnessed history at the fork's size the witness still does not serve the published checkpoint: %s", what, last)
				}
				time.Sleep(40 * time.Millisecond)
			}
			witnessed[st.Log] = want
			classes = append(classes, "followed-after-heal:"+stubs.logs[st.Log].kind)
		case "restart":
			// on SQLite the file carries the state; with the in-memory store the SAME store
			// object is handed to the next Main (Init is documented to be idempotent)
			if err := stop(run); err != nil {
				run = nil
				return true, classes, fmt.Errorf("%s: %v", what, err)
			}
			// the logs are unreachable while the restarted service is looked at: what it serves
			// then is what it kept, not what its feeders have just fetched again
			stubs.mu.Lock()
			stubs.down = true
			stubs.mu.Unlock()
			run, err = start()
			if err != nil {
				stubs.mu.Lock()
				stubs.down = false
				stubs.mu.Unlock()
				return true, classes, fmt.Errorf("harness: restart: %v", err)
			}
			restarts++
			// durable storage: what was witnessed is served again right away
			for li, want := range witnessed {
				var code int
				var b []byte
				var gerr error
				for try := 0; try < 100; try++ {
					code, b, gerr = get(run, li)
					if gerr == nil {
						break
					}
					time.Sleep(20 * time.Millisecond)
				}
				if gerr != nil || code != 200 {
					return true, classes, fmt.Errorf("%s: after restart GET for log %d: status %d err %v (witnessed state lost)", what, li, code, gerr)
				}
				if verr := validCosigned(li, b, want); verr != nil {
					return true, classes, fmt.Errorf("%s: after restart log %d: %v", what, li, verr)
				}
			}
			stubs.mu.Lock()
			stubs.down = false
			stubs.mu.Unlock()
			classes = append(classes, "restart")
		}
	}
	for li, l := range stubs.logs {
		stubs.mu.Lock()
		bad := append([]string{}, l.badReqs...)
		stubs.mu.Unlock()
		if len(bad) > 0 {
			return true, classes, fmt.Errorf("log %d (%s) received malformed requests: %v", li, l.kind, bad)
		}
	}
	if err := stop(run); err != nil {
		run = nil
		return true, classes, err
	}
	run = nil
	_ = lastWitnessed
	return (growths >= 2 && crossed) || restarts > 0 || forks > 0 || heals > 0 || outages > 0, classes, nil
}

const ruleC14 = "omniwitness.Main started from a generated YAML configuration (one sumdb-type log, 1-3 tiles-type logs served by in-process stub servers over loopback; in half of the cases also a bastion-only entry with Feeder none somewhere in the list), polling every 250ms, mem or file-backed SQLite, real listener; growth schedules over sizes crossing tile boundaries, restarts on the same database (or the same in-memory store object: Init is documented as idempotent), switches to a forked history and back to the witnessed one at the fork's size, growth published while the log's tiles are unreadable for three polls; after each growth the served checkpoint must become the published one, fully cosigned, within 60s; after a fork has been polled 4 more times the served checkpoint is still the witnessed one; non-trivial = schedule with >=2 growth steps one of which crosses a tile boundary, or a restart, or a fork, or a return from a fork, or a tile outage; distinct by case hash"

var omniSizes = []uint64{1, 2, 3, 4, 5, 17, 255, 256, 257, 300, 511, 512, 513, 1000, 65535, 65536, 65537, 70000, 255999, 256001, 256100, 256255, 256257}

func omniHash(c *OmniCase) string {
	b, _ := json.Marshal(c)
	return fmt.Sprintf("%x", vlib.LeafHash(b))[:16]
}

func TestC14(t *testing.T) {
	st := vlib.StatsFor("C14", "main", ruleC14)
	rapid.Check(t, func(rt *rapid.T) {
		c := &OmniCase{Storage: rapid.SampledFrom([]string{"mem", "sqlfile", "sqlfile"}).Draw(rt, "storage"), NTiles: rapid.IntRange(1, 3).Draw(rt, "ntiles")}
		if rapid.Bool().Draw(rt, "withnone") {
			c.NoneAt = rapid.IntRange(1, c.NTiles+2).Draw(rt, "noneat")
		}
		nsteps := rapid.IntRange(3, 8).Draw(rt, "nsteps")
		cur := make([]uint64, c.NTiles+1)
		forkedGen := make([]bool, c.NTiles+1)
		for i := 0; i < nsteps; i++ {
			s := OmniStep{Log: rapid.IntRange(0, c.NTiles).Draw(rt, "log")}
			switch k := vlib.Uniform(rt, 10, "kind"); {
			case k < 6 && forkedGen[s.Log] && rapid.Bool().Draw(rt, "healfirst"):
				s.Kind = "heal"
				forkedGen[s.Log] = false
			case k < 6:
				s.Kind = "grow"
				if vlib.Pct(rt, 25, "outage") {
					s.Kind = "grow-outage"
				}
				if rapid.Bool().Draw(rt, "edge") {
					s.Size = rapid.SampledFrom(omniSizes).Draw(rt, "size")
				} else {
					s.Size = cur[s.Log] + uint64(rapid.IntRange(1, 600).Draw(rt, "delta"))
				}
				if s.Size <= cur[s.Log] {
					s.Size = cur[s.Log] + 1
				}
				cur[s.Log] = s.Size
			case k < 8:
				s.Kind = "restart"
			default:
				if forkedGen[s.Log] && rapid.Bool().Draw(rt, "heal") {
					s.Kind = "heal"
					forkedGen[s.Log] = false
					break
				}
				s.Kind = "fork"
				s.Size = cur[s.Log] + uint64(rapid.IntRange(0, 300).Draw(rt, "forkgrow"))
				if cur[s.Log] >= 2 {
					forkedGen[s.Log] = true
					cur[s.Log] = s.Size
				}
			}
			c.Steps = append(c.Steps, s)
		}
		nt, classes, err := runOmni(c)
		st.Record(omniHash(c), nt, classes, vlib.SampleOf(c))
		if err != nil {
			vlib.SaveFailure("C14", "main", c, err)
			rt.Fatalf("C14 violated: %v", err)
		}
	})
}

// TestC14Fixed: schedules that every run should contain regardless of what rapid draws:
// a fork on durable storage followed by growth of the *other* logs (a refused update must
// not wedge the service), and single steps across the top power of two.
func TestC14Fixed(t *testing.T) {
	st := vlib.StatsFor("C14", "fixed", "fixed schedules: fork on SQLite then growth of the other logs and a restart; fork, return to the witnessed history at the fork's size, further growth; growth inside level-0 tile 1000 (255900 -> 256100); a configuration of 41 polled logs; growth 255->257 and 65535->65537 in one step on both log types; "+ruleC14)
	for _, c := range []*OmniCase{
		{Storage: "sqlfile", NTiles: 1, Steps: []OmniStep{{Kind: "grow", Log: 0, Size: 300}, {Kind: "grow", Log: 1, Size: 5}, {Kind: "fork", Log: 0, Size: 400}, {Kind: "grow", Log: 1, Size: 9}, {Kind: "restart"}, {Kind: "grow", Log: 1, Size: 300}}},
		{Storage: "sqlfile", NTiles: 1, Steps: []OmniStep{{Kind: "grow", Log: 1, Size: 40}, {Kind: "grow", Log: 0, Size: 7}, {Kind: "fork", Log: 1, Size: 40}, {Kind: "grow", Log: 0, Size: 12}}},
		{Storage: "mem", NTiles: 1, Steps: []OmniStep{{Kind: "grow", Log: 1, Size: 300}, {Kind: "grow", Log: 0, Size: 300}, {Kind: "fork", Log: 1, Size: 400}, {Kind: "fork", Log: 0, Size: 400}, {Kind: "heal", Log: 1}, {Kind: "heal", Log: 0}, {Kind: "grow", Log: 1, Size: 450}, {Kind: "grow", Log: 0, Size: 450}}},
		{Storage: "mem", NTiles: 1, Steps: []OmniStep{{Kind: "grow", Log: 0, Size: 10}, {Kind: "grow", Log: 1, Size: 10}, {Kind: "grow-outage", Log: 0, Size: 20}, {Kind: "grow-outage", Log: 1, Size: 20}, {Kind: "grow", Log: 0, Size: 21}}},
		// a configuration far larger than the shipped one (41 polled logs): nothing may depend on the number of logs
		{Storage: "mem", NTiles: 1, Steps: []OmniStep{{Kind: "grow", Log: 0, Size: 5}, {Kind: "grow", Log: 1, Size: 5}, {Kind: "restart"}, {Kind: "grow", Log: 1, Size: 9}, {Kind: "restart"}, {Kind: "grow", Log: 0, Size: 9}}},
		{Storage: "mem", NTiles: 40, Steps: []OmniStep{{Kind: "grow", Log: 0, Size: 3}, {Kind: "grow", Log: 1, Size: 4}, {Kind: "grow", Log: 17, Size: 5}, {Kind: "grow", Log: 33, Size: 6}, {Kind: "grow", Log: 40, Size: 7}, {Kind: "grow", Log: 40, Size: 300}, {Kind: "grow", Log: 1, Size: 9}}},
		{Storage: "mem", NTiles: 2, NoneAt: 2, Steps: []OmniStep{{Kind: "grow", Log: 0, Size: 3}, {Kind: "grow", Log: 1, Size: 4}, {Kind: "grow", Log: 2, Size: 5}, {Kind: "grow", Log: 1, Size: 9}, {Kind: "grow", Log: 2, Size: 300}}},
		{Storage: "mem", NTiles: 1, Steps: []OmniStep{{Kind: "grow", Log: 0, Size: 255900}, {Kind: "grow", Log: 1, Size: 255900}, {Kind: "grow", Log: 0, Size: 256100}, {Kind: "grow", Log: 1, Size: 256100}}},
		{Storage: "mem", NTiles: 1, Steps: []OmniStep{{Kind: "grow", Log: 0, Size: 255}, {Kind: "grow", Log: 1, Size: 255}, {Kind: "grow", Log: 0, Size: 257}, {Kind: "grow", Log: 1, Size: 257}, {Kind: "grow", Log: 0, Size: 65535}, {Kind: "grow", Log: 1, Size: 65535}, {Kind: "grow", Log: 0, Size: 65537}, {Kind: "grow", Log: 1, Size: 65537}}},
	} {
		nt, classes, err := runOmni(c)
		st.Record(omniHash(c), nt, classes, vlib.SampleOf(c))
		if err != nil {
			vlib.SaveFailure("C14", "fixed", c, err)
			t.Fatalf("C14 violated: %v", err)
		}
	}
}

func init() {
	vlib.Replayers["C14/fixed"] = func(raw json.RawMessage) error {
		var c OmniCase
		if err := json.Unmarshal(raw, &c); err != nil {
			return err
		}
		_, _, err := runOmni(&c)
		return err
	}
	vlib.Replayers["C14/main"] = func(raw json.RawMessage) error {
		var c OmniCase
		if err := json.Unmarshal(raw, &c); err != nil {
			return err
		}
		_, _, err := runOmni(&c)
		return err
	}
}
