//go:build verif

package omniwitness

import (
	"encoding/json"
	"fmt"
	"io"
	"net"
	"net/http/httptest"
	"os"
	"os/exec"
	"path/filepath"
	"strings"
	"testing"
	"time"

	logfmt "github.com/transparency-dev/formats/log"
	"github.com/transparency-dev/witness/internal/verifh/vlib"
	"golang.org/x/mod/sumdb/tlog"
	"pgregory.net/rapid"
)

// ---------------------------------------------------------------------------------
// C06 with the real program: cmd/omniwitness built from the tree under test (plus one
// verif-tagged file that lets the log configuration come from a file), run as a child
// process on a SQLite file, fed by its own feeders from stub logs, SIGKILLed at drawn
// instants and started again on the same file.

// BinStep is one growth of one log, optionally with a kill.
type BinStep struct {
	Log  int    `json:"log"`
	Grow uint64 `json:"grow"`
	// Kill: -1 no kill; >= 0: SIGKILL that many units of 100us after the program's feeder
	// fetched the newly published checkpoint from the stub log (so the kill lands in the
	// middle of that update); -2: SIGKILL right after the new checkpoint was observed
	// through the HTTP API (acknowledged).
	Kill int `json:"kill"`
}

// BinCase is one life of the program.
type BinCase struct {
	NTiles int       `json:"ntiles"`
	Steps  []BinStep `json:"steps"`
}

type binProc struct {
	cmd    *exec.Cmd
	addr   string
	log    string
	exited chan struct{}
}

func freeAddr() (string, error) {
	ln, err := net.Listen("tcp", "127.0.0.1:0")
	if err != nil {
		return "", err
	}
	a := ln.Addr().String()
	ln.Close()
	return a, nil
}

func tailOf(path string) string {
	b, _ := os.ReadFile(path)
	if len(b) > 1500 {
		b = b[len(b)-1500:]
	}
	return string(b)
}

func stubPubText(l *stubLog, size uint64) string {
	root := l.branch.Root(size)
	if l.kind == "sumdb" {
		return string(tlog.FormatTree(tlog.Tree{N: int64(size), Hash: tlog.Hash(root)}))
	}
	return vlib.CheckpointText(l.origin, size, root[:], nil)
}

// servedText checks that raw is a complete note carrying the log's signature and both
// witness signatures, and returns its text.
func servedText(l *stubLog, wk *vlib.Key, raw []byte) (string, error) {
	text, sigs, ok := vlib.SplitNote(raw)
	if !ok {
		return "", fmt.Errorf("served bytes are not a note: %q", raw)
	}
	logOK, legacyOK, cosigOK := false, false, false
	for _, sg := range sigs {
		if l.key.VerifyPlain(text, sg) {
			logOK = true
		}
		if wk.VerifyPlain(text, sg) {
			legacyOK = true
		}
		if _, ok := wk.VerifyCosig(text, sg); ok {
			cosigOK = true
		}
	}
	if !logOK || !legacyOK || !cosigOK {
		return text, fmt.Errorf("served checkpoint %q lacks a valid signature (log %v, witness legacy %v, witness cosignature %v)", text, logOK, legacyOK, cosigOK)
	}
	return text, nil
}

func runBin(c *BinCase) (bool, []string, error) {
	bin := os.Getenv("VERIF_PROG_OMNIBIN")
	if bin == "" {
		return false, nil, fmt.Errorf("harness: VERIF_PROG_OMNIBIN not set (the driver builds cmd/omniwitness for this part)")
	}
	stubs := &stubLogs{}
	stubs.logs = append(stubs.logs, &stubLog{kind: "sumdb", origin: "go.sum database tree", key: vlib.NewKey("sum.example", "bin-sumdb"), branch: vlib.RootBranch("B0", 0)})
	for i := 0; i < c.NTiles; i++ {
		stubs.logs = append(stubs.logs, &stubLog{kind: "tiles", origin: fmt.Sprintf("tiles.example/bin %d", i+1), key: vlib.NewKey(fmt.Sprintf("bintiles%d.example", i+1), fmt.Sprintf("bin-tiles%d", i+1)), branch: vlib.RootBranch(fmt.Sprintf("B%d", i+1), 0)})
	}
	srv := httptest.NewServer(stubs)
	defer srv.Close()
	base := os.Getenv("VERIF_SCRATCH")
	if base == "" {
		base = os.TempDir()
	}
	dir, err := os.MkdirTemp(base, "c06bin-")
	if err != nil {
		return false, nil, fmt.Errorf("harness: %v", err)
	}
	defer os.RemoveAll(dir)
	var y strings.Builder
	y.WriteString("Logs:\n")
	for i, l := range stubs.logs {
		fmt.Fprintf(&y, "  - Origin: %s\n    URL: %s/log%d\n    PublicKey: %s\n    Feeder: %s\n", l.origin, srv.URL, i, l.key.VKey(), l.kind)
	}
	cfgPath := filepath.Join(dir, "logs.yaml")
	if err := os.WriteFile(cfgPath, []byte(y.String()), 0o600); err != nil {
		return false, nil, fmt.Errorf("harness: %v", err)
	}
	wk := vlib.NewKey("witness.example/w", "wit")
	nstart := 0
	start := func() (*binProc, error) {
		var lastErr error
		for attempt := 0; attempt < 3; attempt++ {
			addr, err := freeAddr()
			if err != nil {
				return nil, err
			}
			nstart++
			logPath := filepath.Join(dir, fmt.Sprintf("out-%d.log", nstart))
			lf, err := os.Create(logPath)
			if err != nil {
				return nil, err
			}
			cmd := exec.Command(bin, "-listen", addr, "-metrics_listen", "", "-db_file", filepath.Join(dir, "witness.db"),
				"-private_key", wk.SKey(), "-poll_interval", "100ms", "-http_timeout", "5s")
			cmd.Env = append(os.Environ(), "VERIF_CONFIG_LOGS="+cfgPath)
			cmd.Stdout, cmd.Stderr = lf, lf
			if err := cmd.Start(); err != nil {
				lf.Close()
				return nil, err
			}
			lf.Close()
			exited := make(chan struct{})
			p := &binProc{cmd: cmd, addr: addr, log: logPath, exited: exited}
			go func() { _ = cmd.Wait(); close(exited) }()
			deadline := time.Now().Add(30 * time.Second)
			up := false
			for time.Now().Before(deadline) {
				resp, err := verifHTTP.Get("http://" + addr + "/witness/v0/logs")
				if err == nil {
					io.Copy(io.Discard, resp.Body)
					resp.Body.Close()
					up = true
					break
				}
				select {
				case <-exited:
					deadline = time.Now()
				case <-time.After(20 * time.Millisecond):
				}
			}
			if up {
				return p, nil
			}
			_ = cmd.Process.Kill()
			<-exited
			lastErr = fmt.Errorf("the program did not serve on %s within 30s; its output ends:\n%s", addr, tailOf(logPath))
			if !strings.Contains(tailOf(logPath), "failed to listen") {
				break // not a port collision: report
			}
		}
		return nil, lastErr
	}
	kill := func(p *binProc) {
		_ = p.cmd.Process.Kill() // SIGKILL
		select {
		case <-p.exited:
		case <-time.After(10 * time.Second):
		}
	}
	get := func(p *binProc, li int) (int, []byte, error) {
		id := logfmt.ID(stubs.logs[li].origin)
		resp, err := verifHTTP.Get("http://" + p.addr + "/witness/v0/logs/" + id + "/checkpoint")
		if err != nil {
			return 0, nil, err
		}
		defer resp.Body.Close()
		b, _ := io.ReadAll(resp.Body)
		return resp.StatusCode, b, nil
	}
	// waitServed polls until log li serves text want (fully signed).
	waitServed := func(p *binProc, li int, want string, what string) error {
		deadline := time.Now().Add(60 * time.Second)
		last := ""
		for {
			code, b, err := get(p, li)
			if err == nil && code == 200 {
				text, verr := servedText(stubs.logs[li], wk, b)
				if verr != nil {
					return fmt.Errorf("%s: %v", what, verr)
				}
				if text == want {
					return nil
				}
				last = fmt.Sprintf("serves %q", text)
			} else {
				last = fmt.Sprintf("status %d err %v", code, err)
			}
			if time.Now().After(deadline) {
				return fmt.Errorf("%s: 60s (600 poll intervals) after the log published %q the program %s; its output ends:\n%s", what, want, last, tailOf(p.log))
			}
			time.Sleep(15 * time.Millisecond)
		}
	}

	p, err := start()
	if err != nil {
		return false, nil, fmt.Errorf("harness: first start: %v", err)
	}
	defer func() {
		if p != nil {
			kill(p)
		}
	}()
	acked := map[int]string{} // per log: the last checkpoint text observed through the API
	var classes []string
	kills := 0
	for si, st := range c.Steps {
		what := fmt.Sprintf("step %d (log %d +%d kill %d)", si, st.Log, st.Grow, st.Kill)
		stubs.mu.Lock()
		l := stubs.logs[st.Log]
		l.size += st.Grow
		newSize := l.size
		stubs.mu.Unlock()
		pub := stubPubText(l, newSize)
		if st.Kill >= 0 {
			// wait until the program's feeder has fetched the new checkpoint, then let it
			// run for Kill x 100us: the kill lands around proof fetching, verification and
			// the storage transaction of that update
			for dl := time.Now().Add(10 * time.Second); time.Now().Before(dl); {
				stubs.mu.Lock()
				got := l.served == newSize
				stubs.mu.Unlock()
				if got {
					break
				}
				time.Sleep(200 * time.Microsecond)
			}
			time.Sleep(time.Duration(st.Kill) * 100 * time.Microsecond)
			kill(p)
			kills++
			// the logs stay unreachable until the state left by the crash has been looked at
			stubs.mu.Lock()
			stubs.down = true
			stubs.mu.Unlock()
			p, err = start()
			if err != nil {
				return true, classes, fmt.Errorf("%s: after SIGKILL %d x 100us into the update the program does not come back on the same database: %v", what, st.Kill, err)
			}
			// every log: old or new, complete and validly cosigned; nothing acknowledged is lost
			for li, lg := range stubs.logs {
				code, b, gerr := get(p, li)
				if gerr != nil {
					return true, classes, fmt.Errorf("%s: GET after restart: %v", what, gerr)
				}
				old, had := acked[li]
				if code == 404 {
					if had {
						return true, classes, fmt.Errorf("%s: log %d served %q before the kill (acknowledged) and has NO checkpoint after restart", what, li, old)
					}
					continue
				}
				if code != 200 {
					return true, classes, fmt.Errorf("%s: GET for log %d after restart: status %d (%q)", what, li, code, b)
				}
				text, verr := servedText(lg, wk, b)
				if verr != nil {
					return true, classes, fmt.Errorf("%s: log %d after restart: %v", what, li, verr)
				}
				allowed := []string{}
				if had {
					allowed = append(allowed, old)
				}
				stubs.mu.Lock()
				cur := lg.size
				stubs.mu.Unlock()
				if cur > 0 {
					allowed = append(allowed, stubPubText(lg, cur))
				}
				okText := false
				for _, a := range allowed {
					if text == a {
						okText = true
					}
				}
				if !okText {
					return true, classes, fmt.Errorf("%s: log %d serves %q after restart, which is neither the checkpoint held before the interrupted update nor the one being written %q", what, li, text, allowed)
				}
				if li == st.Log {
					if had && text == old && old != pub {
						classes = append(classes, "killed-mid-update:old")
					} else {
						classes = append(classes, "killed-mid-update:new")
					}
				}
			}
		}
		stubs.mu.Lock()
		stubs.down = false
		stubs.mu.Unlock()
		if err := waitServed(p, st.Log, pub, what); err != nil {
			return true, classes, err
		}
		acked[st.Log] = pub
		if st.Kill == -2 {
			kill(p)
			kills++
			p, err = start()
			if err != nil {
				return true, classes, fmt.Errorf("%s: after SIGKILL of the idle program it does not come back on the same database: %v", what, err)
			}
			for li, want := range acked {
				code, b, gerr := get(p, li)
				if gerr != nil || code != 200 {
					return true, classes, fmt.Errorf("%s: log %d was acknowledged at %q; after kill and restart GET gives status %d err %v", what, li, want, code, gerr)
				}
				text, verr := servedText(stubs.logs[li], wk, b)
				if verr != nil {
					return true, classes, fmt.Errorf("%s: log %d after restart: %v", what, li, verr)
				}
				if text != want {
					return true, classes, fmt.Errorf("%s: log %d was acknowledged at %q; after kill and restart it serves %q", what, li, want, text)
				}
			}
			classes = append(classes, "killed-after-ack")
		}
	}
	kill(p)
	p = nil
	return kills > 0, classes, nil
}

func binHash(c *BinCase) string {
	b, _ := json.Marshal(c)
	return fmt.Sprintf("%x", vlib.LeafHash(b))[:16]
}

func TestC06Binary(t *testing.T) {
	st := vlib.StatsFor("C06", "binary", "the real cmd/omniwitness program (built from the tree, log configuration from a generated file) on a SQLite file, polling stub sumdb/tiles logs every 100ms; 3-8 growth steps, each optionally with SIGKILL 0-30ms after the program's feeder fetched the newly published checkpoint (i.e. in the middle of that update) or right after the new checkpoint was acknowledged through the HTTP API, then a restart on the same file: every log must serve a complete, fully signed checkpoint that is the one held before or the one being written, nothing acknowledged may be lost, and the program must come back and catch up; non-trivial = at least one kill; distinct by case hash")
	rapid.Check(t, func(rt *rapid.T) {
		c := &BinCase{NTiles: rapid.IntRange(1, 2).Draw(rt, "ntiles")}
		n := rapid.IntRange(3, 8).Draw(rt, "nsteps")
		for i := 0; i < n; i++ {
			s := BinStep{Log: rapid.IntRange(0, c.NTiles).Draw(rt, "log"), Kill: -1}
			if rapid.Bool().Draw(rt, "small") {
				s.Grow = uint64(rapid.IntRange(1, 9).Draw(rt, "grow"))
			} else {
				s.Grow = uint64(rapid.IntRange(1, 700).Draw(rt, "growbig"))
			}
			switch vlib.Uniform(rt, 4, "killkind") {
			case 0:
			case 1:
				s.Kill = -2
			default:
				s.Kill = rapid.SampledFrom([]int{0, 1, 2, 3, 5, 8, 12, 20, 30, 50, 100, 300}).Draw(rt, "killdelay") + rapid.IntRange(0, 3).Draw(rt, "killjit")
			}
			c.Steps = append(c.Steps, s)
		}
		nt, classes, err := runBin(c)
		st.Record(binHash(c), nt, classes, vlib.SampleOf(c))
		if err != nil {
			vlib.SaveFailure("C06", "binary", c, err)
			rt.Fatalf("C06 violated: %v", err)
		}
	})
}

func init() {
	vlib.Replayers["C06/binary"] = func(raw json.RawMessage) error {
		var c BinCase
		if err := json.Unmarshal(raw, &c); err != nil {
			return err
		}
		_, _, err := runBin(&c)
		return err
	}
}
