//go:build verif

package omniwitness

import (
	"errors"
	"encoding/json"
	"fmt"
	"io"
	"net"
	"net/http/httptest"
	"os"
	"os/exec"
	"sync"
	"syscall"
	"path/filepath"
	"strings"
	"testing"
	"time"

	logfmt "github.com/transparency-dev/formats/log"
	"github.com/transparency-dev/witness/internal/verifh/vlib"
	"golang.org/x/mod/sumdb/tlog"
	"pgregory.net/rapid"
)

// ---------------------------------------------------------------------------------
// C06 with the real program: cmd/omniwitness built from the tree under test (plus one
// verif-tagged file that lets the log configuration come from a file), run as a child
// process on a SQLite file, fed by its own feeders from stub logs, SIGKILLed at drawn
// instants and started again on the same file.

// BinStep is one growth of one log, optionally with a kill.
type BinStep struct {
	Log  int    `json:"log"`
	Grow uint64 `json:"grow"`
	// Kill: -1 no kill; >= 0: SIGKILL that many units of 100us after the program's feeder
	// fetched the newly published checkpoint from the stub log (so the kill lands in the
	// middle of that update); -2: SIGKILL right after the new checkpoint was observed
	// through the HTTP API (acknowledged).
	Kill int `json:"kill"`
	// ExtKB > 0: from this step on the (tiles-type) log's checkpoint carries that many KiB
	// of extension lines (a legal, large checkpoint)
	ExtKB int `json:"ext_kb,omitempty"`
}

// BinCase is one life of the program.
type BinCase struct {
	NTiles int `json:"ntiles"`
	// SlowSyncMs > 0: the program runs under strace with every fsync/fdatasync delayed by
	// that many milliseconds and every pwrite64 (SQLite's page writes) by 1.5ms, which
	// stretches the commit of each update so that kills and reads land inside it
	// (skipped, and counted, where strace cannot trace)
	SlowSyncMs int       `json:"slow_sync_ms,omitempty"`
	Steps      []BinStep `json:"steps"`
}

type binProc struct {
	cmd    *exec.Cmd
	addr   string
	log    string
	exited chan struct{}
}

func freeAddr() (string, error) {
	ln, err := net.Listen("tcp", "127.0.0.1:0")
	if err != nil {
		return "", err
	}
	a := ln.Addr().String()
	ln.Close()
	return a, nil
}

func tailOf(path string) string {
	b, _ := os.ReadFile(path)
	if len(b) > 1500 {
		b = b[len(b)-1500:]
	}
	return string(b)
}

func stubPubText(l *stubLog, size uint64) string {
	root := l.branch.Root(size)
	if l.kind == "sumdb" {
		return string(tlog.FormatTree(tlog.Tree{N: int64(size), Hash: tlog.Hash(root)}))
	}
	return vlib.CheckpointText(l.origin, size, root[:], l.ext)
}

func extLines(kb int, tag int) []string {
	var out []string
	line := strings.Repeat(fmt.Sprintf("extension-%d-", tag), 8)
	for n := 0; n < kb*1024; n += len(line) + 1 {
		out = append(out, line)
	}
	return out
}

var (
	straceOnce sync.Once
	straceOK   bool
)

// canStrace: strace is installed and allowed to delay a child's fsync here.
func canStrace() bool {
	straceOnce.Do(func() {
		path, err := exec.LookPath("strace")
		if err != nil {
			return
		}
		out, err := exec.Command(path, "-f", "--seccomp-bpf", "-o", "/dev/null", "-e", "trace=fsync,fdatasync,pwrite64", "-e", "inject=fsync,fdatasync:delay_enter=1000", "-e", "inject=pwrite64:delay_enter=1000", "true").CombinedOutput()
		straceOK = err == nil && len(out) == 0
	})
	return straceOK
}

// servedText checks that raw is a complete note carrying the log's signature and both
// witness signatures, and returns its text.
func servedText(l *stubLog, wk *vlib.Key, raw []byte) (string, error) {
	text, sigs, ok := vlib.SplitNote(raw)
	if !ok {
		return "", fmt.Errorf("served bytes (%d) are not a note: %.300q", len(raw), raw)
	}
	logOK, legacyOK, cosigOK := false, false, false
	for _, sg := range sigs {
		if l.key.VerifyPlain(text, sg) {
			logOK = true
		}
		if wk.VerifyPlain(text, sg) {
			legacyOK = true
		}
		if _, ok := wk.VerifyCosig(text, sg); ok {
			cosigOK = true
		}
	}
	if !logOK || !legacyOK || !cosigOK {
		return text, fmt.Errorf("served checkpoint (%d bytes) %.300q lacks a valid signature (log %v, witness legacy %v, witness cosignature %v)", len(raw), text, logOK, legacyOK, cosigOK)
	}
	return text, nil
}

// catchUpError: the only verdict of this part that rests on a deadline.
type catchUpError struct{ msg string }

func (e catchUpError) Error() string { return e.msg }

// runBin runs the case; a catch-up timeout (the one deadline-based verdict) only counts
// if it happens again when the whole case is run a second time.
func runBin(c *BinCase) (bool, []string, error) {
	nt, classes, err := runBinOnce(c)
	var cu catchUpError
	if errors.As(err, &cu) {
		nt2, classes2, err2 := runBinOnce(c)
		if err2 == nil {
			return nt2, append(classes2, "catch-up-timeout-not-reproduced"), nil
		}
		return nt2, classes2, err2
	}
	return nt, classes, err
}

func runBinOnce(c *BinCase) (bool, []string, error) {
	bin := os.Getenv("VERIF_PROG_OMNIBIN")
	if bin == "" {
		return false, nil, fmt.Errorf("harness: VERIF_PROG_OMNIBIN not set (the driver builds cmd/omniwitness for this part)")
	}
	stubs := &stubLogs{}
	stubs.logs = append(stubs.logs, &stubLog{kind: "sumdb", origin: "go.sum database tree", key: vlib.NewKey("sum.example", "bin-sumdb"), branch: vlib.RootBranch("B0", 0)})
	for i := 0; i < c.NTiles; i++ {
		stubs.logs = append(stubs.logs, &stubLog{kind: "tiles", origin: fmt.Sprintf("tiles.example/bin %d", i+1), key: vlib.NewKey(fmt.Sprintf("bintiles%d.example", i+1), fmt.Sprintf("bin-tiles%d", i+1)), branch: vlib.RootBranch(fmt.Sprintf("B%d", i+1), 0)})
	}
	srv := httptest.NewServer(stubs)
	defer srv.Close()
	base := os.Getenv("VERIF_SCRATCH")
	if base == "" {
		base = os.TempDir()
	}
	dir, err := os.MkdirTemp(base, "c06bin-")
	if err != nil {
		return false, nil, fmt.Errorf("harness: %v", err)
	}
	defer os.RemoveAll(dir)
	var y strings.Builder
	y.WriteString("Logs:\n")
	for i, l := range stubs.logs {
		fmt.Fprintf(&y, "  - Origin: %s\n    URL: %s/log%d\n    PublicKey: %s\n    Feeder: %s\n", l.origin, srv.URL, i, l.key.VKey(), l.kind)
	}
	cfgPath := filepath.Join(dir, "logs.yaml")
	if err := os.WriteFile(cfgPath, []byte(y.String()), 0o600); err != nil {
		return false, nil, fmt.Errorf("harness: %v", err)
	}
	wk := vlib.NewKey("witness.example/w", "wit")
	slow := c.SlowSyncMs > 0 && canStrace()
	nstart := 0
	start := func() (*binProc, error) {
		var lastErr error
		for attempt := 0; attempt < 3; attempt++ {
			addr, err := freeAddr()
			if err != nil {
				return nil, err
			}
			nstart++
			logPath := filepath.Join(dir, fmt.Sprintf("out-%d.log", nstart))
			lf, err := os.Create(logPath)
			if err != nil {
				return nil, err
			}
			// the poll interval is also the time budget of one feed cycle: generous enough
			// for a 200 KiB checkpoint on a loaded machine, and for the stretched commits
			poll := "250ms"
			if slow {
				poll = "1s"
			}
			args := []string{"-listen", addr, "-metrics_listen", "", "-db_file", filepath.Join(dir, "witness.db"),
				"-private_key", wk.SKey(), "-poll_interval", poll, "-http_timeout", "5s"}
			cmd := exec.Command(bin, args...)
			if slow {
				// fsync delayed by SlowSyncMs, every page write (SQLite uses pwrite64) by 1.5ms
				cmd = exec.Command("strace", append([]string{"-f", "--seccomp-bpf", "-o", "/dev/null", "-e", "trace=fsync,fdatasync,pwrite64", "-e",
					fmt.Sprintf("inject=fsync,fdatasync:delay_enter=%d", c.SlowSyncMs*1000), "-e", "inject=pwrite64:delay_enter=1500", bin}, args...)...)
			}
			cmd.SysProcAttr = &syscall.SysProcAttr{Setpgid: true} // the kill takes the whole group (strace and the program) at once
			cmd.Env = append(os.Environ(), "VERIF_CONFIG_LOGS="+cfgPath)
			cmd.Stdout, cmd.Stderr = lf, lf
			if err := cmd.Start(); err != nil {
				lf.Close()
				return nil, err
			}
			lf.Close()
			exited := make(chan struct{})
			p := &binProc{cmd: cmd, addr: addr, log: logPath, exited: exited}
			go func() { _ = cmd.Wait(); close(exited) }()
			deadline := time.Now().Add(30 * time.Second)
			up := false
			for time.Now().Before(deadline) {
				resp, err := verifHTTP.Get("http://" + addr + "/witness/v0/logs")
				if err == nil {
					io.Copy(io.Discard, resp.Body)
					resp.Body.Close()
					up = true
					break
				}
				select {
				case <-exited:
					deadline = time.Now()
				case <-time.After(20 * time.Millisecond):
				}
			}
			if up {
				return p, nil
			}
			_ = syscall.Kill(-cmd.Process.Pid, syscall.SIGKILL)
			<-exited
			lastErr = fmt.Errorf("the program did not serve on %s within 30s; its output ends:\n%s", addr, tailOf(logPath))
			if !strings.Contains(tailOf(logPath), "failed to listen") {
				break // not a port collision: report
			}
		}
		return nil, lastErr
	}
	kill := func(p *binProc) {
		_ = syscall.Kill(-p.cmd.Process.Pid, syscall.SIGKILL)
		select {
		case <-p.exited:
		case <-time.After(10 * time.Second):
		}
	}
	get := func(p *binProc, li int) (int, []byte, error) {
		id := logfmt.ID(stubs.logs[li].origin)
		resp, err := verifHTTP.Get("http://" + p.addr + "/witness/v0/logs/" + id + "/checkpoint")
		if err != nil {
			return 0, nil, err
		}
		defer resp.Body.Close()
		b, _ := io.ReadAll(resp.Body)
		return resp.StatusCode, b, nil
	}
	// waitServed polls until log li serves text want (fully signed).
	waitServed := func(p *binProc, li int, want string, what string, every time.Duration) error {
		deadline := time.Now().Add(60 * time.Second)
		last := ""
		for {
			code, b, err := get(p, li)
			if err == nil && code == 200 {
				text, verr := servedText(stubs.logs[li], wk, b)
				if verr != nil {
					return fmt.Errorf("%s: %v", what, verr)
				}
				if text == want {
					return nil
				}
				last = fmt.Sprintf("serves %.300q", text)
			} else {
				last = fmt.Sprintf("status %d err %v", code, err)
			}
			if time.Now().After(deadline) {
				return catchUpError{fmt.Sprintf("%s: 60s after the log published %.300q the program %s; its output ends:\n%s", what, want, last, tailOf(p.log))}
			}
			time.Sleep(every)
		}
	}

	p, err := start()
	if err != nil {
		return false, nil, fmt.Errorf("harness: first start: %v", err)
	}
	defer func() {
		if p != nil {
			kill(p)
		}
	}()
	acked := map[int]string{} // per log: the last checkpoint text observed through the API
	var classes []string
	kills := 0
	for si, st := range c.Steps {
		what := fmt.Sprintf("step %d (log %d +%d kill %d)", si, st.Log, st.Grow, st.Kill)
		stubs.mu.Lock()
		l := stubs.logs[st.Log]
		l.size += st.Grow
		newSize := l.size
		if st.ExtKB > 0 && l.kind == "tiles" {
			l.ext = extLines(st.ExtKB, si)
		}
		stubs.mu.Unlock()
		pub := stubPubText(l, newSize)
		if st.Kill >= 0 {
			// wait until the program's feeder has fetched the new checkpoint, then let it
			// run for Kill x 100us: the kill lands around proof fetching, verification and
			// the storage transaction of that update
			for dl := time.Now().Add(10 * time.Second); time.Now().Before(dl); {
				stubs.mu.Lock()
				got := l.served == newSize
				stubs.mu.Unlock()
				if got {
					break
				}
				time.Sleep(200 * time.Microsecond)
			}
			time.Sleep(time.Duration(st.Kill) * 100 * time.Microsecond)
			kill(p)
			kills++
			// the logs stay unreachable until the state left by the crash has been looked at
			stubs.mu.Lock()
			stubs.down = true
			stubs.mu.Unlock()
			p, err = start()
			if err != nil {
				return true, classes, fmt.Errorf("%s: after SIGKILL %d x 100us into the update the program does not come back on the same database: %v", what, st.Kill, err)
			}
			// every log: old or new, complete and validly cosigned; nothing acknowledged is lost
			for li, lg := range stubs.logs {
				code, b, gerr := get(p, li)
				if gerr != nil {
					return true, classes, fmt.Errorf("%s: GET after restart: %v", what, gerr)
				}
				old, had := acked[li]
				if code == 404 {
					if had {
						return true, classes, fmt.Errorf("%s: log %d served %.300q before the kill (acknowledged) and has NO checkpoint after restart", what, li, old)
					}
					continue
				}
				if code != 200 {
					return true, classes, fmt.Errorf("%s: GET for log %d after restart: status %d (%q)", what, li, code, b)
				}
				text, verr := servedText(lg, wk, b)
				if verr != nil {
					return true, classes, fmt.Errorf("%s: log %d after restart: %v", what, li, verr)
				}
				allowed := []string{}
				if had {
					allowed = append(allowed, old)
				}
				stubs.mu.Lock()
				cur := lg.size
				stubs.mu.Unlock()
				if cur > 0 {
					allowed = append(allowed, stubPubText(lg, cur))
				}
				okText := false
				for _, a := range allowed {
					if text == a {
						okText = true
					}
				}
				if !okText {
					return true, classes, fmt.Errorf("%s: log %d serves %.300q after restart, which is neither the checkpoint held before the interrupted update nor the one being written", what, li, text)
				}
				if li == st.Log {
					if had && text == old && old != pub {
						classes = append(classes, "killed-mid-update:old")
					} else {
						classes = append(classes, "killed-mid-update:new")
					}
				}
			}
		}
		stubs.mu.Lock()
		stubs.down = false
		stubs.mu.Unlock()
		every := 15 * time.Millisecond
		if st.Kill == -2 {
			every = 200 * time.Microsecond // see it as early as a client possibly can, then kill at once
		}
		if err := waitServed(p, st.Log, pub, what, every); err != nil {
			return true, classes, err
		}
		acked[st.Log] = pub
		if st.Kill == -2 {
			kill(p)
			kills++
			// again: look at what the crash left before any feeder can repair it
			stubs.mu.Lock()
			stubs.down = true
			stubs.mu.Unlock()
			p, err = start()
			if err != nil {
				return true, classes, fmt.Errorf("%s: after SIGKILL of the idle program it does not come back on the same database: %v", what, err)
			}
			for li, want := range acked {
				code, b, gerr := get(p, li)
				if gerr != nil || code != 200 {
					return true, classes, fmt.Errorf("%s: log %d was acknowledged at %.300q; after kill and restart GET gives status %d err %v", what, li, want, code, gerr)
				}
				text, verr := servedText(stubs.logs[li], wk, b)
				if verr != nil {
					return true, classes, fmt.Errorf("%s: log %d after restart: %v", what, li, verr)
				}
				if text != want {
					return true, classes, fmt.Errorf("%s: log %d was acknowledged at %.300q; after kill and restart it serves %.300q", what, li, want, text)
				}
			}
			classes = append(classes, "killed-after-ack")
			stubs.mu.Lock()
			stubs.down = false
			stubs.mu.Unlock()
		}
	}
	kill(p)
	p = nil
	if c.SlowSyncMs > 0 {
		if slow {
			classes = append(classes, "fsync-delayed")
		} else {
			classes = append(classes, "fsync-delay-unavailable")
		}
	}
	return kills > 0, classes, nil
}

func binHash(c *BinCase) string {
	b, _ := json.Marshal(c)
	return fmt.Sprintf("%x", vlib.LeafHash(b))[:16]
}

func TestC06Binary(t *testing.T) {
	st := vlib.StatsFor("C06", "binary", "the real cmd/omniwitness program (built from the tree, log configuration from a generated file) on a SQLite file, polling stub sumdb/tiles logs every 250ms (1s when the commit is stretched; the interval is also a feed cycle's time budget), in half of the cases under strace with every fsync delayed by 10-40ms and every page write by 1.5ms (a stretched commit), checkpoints of up to 200 KiB (extension lines); 3-8 growth steps, each optionally with SIGKILL 0-300ms after the program's feeder fetched the newly published checkpoint (i.e. in the middle of that update) or right after the new checkpoint was acknowledged through the HTTP API, then a restart on the same file: every log must serve a complete, fully signed checkpoint that is the one held before or the one being written, nothing acknowledged may be lost, and the program must come back and catch up; non-trivial = at least one kill; distinct by case hash")
	rapid.Check(t, func(rt *rapid.T) {
		c := &BinCase{NTiles: rapid.IntRange(1, 2).Draw(rt, "ntiles")}
		if rapid.Bool().Draw(rt, "slowsync") {
			c.SlowSyncMs = rapid.SampledFrom([]int{10, 25, 40, 100}).Draw(rt, "syncms")
		}
		n := rapid.IntRange(3, 8).Draw(rt, "nsteps")
		for i := 0; i < n; i++ {
			s := BinStep{Log: rapid.IntRange(0, c.NTiles).Draw(rt, "log"), Kill: -1}
			if rapid.Bool().Draw(rt, "small") {
				s.Grow = uint64(rapid.IntRange(1, 9).Draw(rt, "grow"))
			} else {
				s.Grow = uint64(rapid.IntRange(1, 700).Draw(rt, "growbig"))
			}
			if s.Log > 0 && vlib.Pct(rt, 30, "bigcp") {
				s.ExtKB = rapid.SampledFrom([]int{20, 48, 64, 100, 200}).Draw(rt, "extkb")
			}
			switch vlib.Uniform(rt, 4, "killkind") {
			case 0:
			case 1:
				s.Kill = -2
			default:
				s.Kill = rapid.SampledFrom([]int{0, 1, 2, 3, 5, 8, 12, 20, 30, 50, 100, 200, 300, 500, 800, 1000, 1500, 2000, 2200, 2400, 2600, 3000}).Draw(rt, "killdelay") + rapid.IntRange(0, 3).Draw(rt, "killjit")
			}
			c.Steps = append(c.Steps, s)
		}
		nt, classes, err := runBin(c)
		st.Record(binHash(c), nt, classes, vlib.SampleOf(c))
		if err != nil {
			vlib.SaveFailure("C06", "binary", c, err)
			rt.Fatalf("C06 violated: %v", err)
		}
	})
}

// TestC06BinaryFixed: schedules every run contains: large checkpoints (100 KiB) written
// under a stretched commit with kills spread over the whole write, and kills right after
// the first sight of a new checkpoint.
func TestC06BinaryFixed(t *testing.T) {
	st := vlib.StatsFor("C06", "binary-fixed", "fixed schedules for the real program: (a) 100 KiB checkpoints, commit stretched (fsync +25ms, page writes +1.5ms), SIGKILL 10..360ms into fifteen successive updates, every 20ms over the stretch in which the stretched commit writes the journal, syncs it, writes the database pages (about 200-260ms in on an idle machine) and syncs them; (b) six updates each killed the moment the new checkpoint is first visible through the HTTP API, commit stretched by 60ms per fsync; same oracle as part binary; non-trivial = any")
	big := &BinCase{NTiles: 1, SlowSyncMs: 25, Steps: []BinStep{{Log: 1, Grow: 5, Kill: -1, ExtKB: 100}}}
	for _, k := range []int{100, 500, 1000, 1400, 1600, 1800, 2000, 2200, 2400, 2600, 2800, 3000, 3200, 3400, 3600} {
		big.Steps = append(big.Steps, BinStep{Log: 1, Grow: 3, Kill: k, ExtKB: 100})
	}
	seen := &BinCase{NTiles: 1, SlowSyncMs: 60, Steps: []BinStep{{Log: 1, Grow: 5, Kill: -1}, {Log: 0, Grow: 4, Kill: -1}}}
	for i := 0; i < 6; i++ {
		seen.Steps = append(seen.Steps, BinStep{Log: i % 2, Grow: uint64(1 + i), Kill: -2})
	}
	for _, c := range []*BinCase{big, seen} {
		nt, classes, err := runBin(c)
		st.Record(binHash(c), nt, classes, vlib.SampleOf(c))
		if err != nil {
			vlib.SaveFailure("C06", "binary-fixed", c, err)
			t.Fatalf("C06 violated: %v", err)
		}
	}
}

func init() {
	vlib.Replayers["C06/binary-fixed"] = func(raw json.RawMessage) error {
		var c BinCase
		if err := json.Unmarshal(raw, &c); err != nil {
			return err
		}
		_, _, err := runBin(&c)
		return err
	}
	vlib.Replayers["C06/binary"] = func(raw json.RawMessage) error {
		var c BinCase
		if err := json.Unmarshal(raw, &c); err != nil {
			return err
		}
		_, _, err := runBin(&c)
		return err
	}
}
