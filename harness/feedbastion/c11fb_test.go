//go:build verif

package main

import (
	"bytes"
	"context"
	"crypto/ed25519"
	"crypto/sha256"
	"encoding/json"
	"errors"
	"fmt"
	"io"
	"net/http"
	"os"
	"strconv"
	"sync"
	"testing"
	"time"

	"github.com/transparency-dev/witness/internal/config"
	"github.com/transparency-dev/witness/internal/feeder/bastion"
	"github.com/transparency-dev/witness/internal/verifh/vlib"
	"golang.org/x/time/rate"
	"pgregory.net/rapid"
)

func TestMain(m *testing.M) {
	vlib.InstallMetrics()
	vlib.QuietKlog()
	if err := vlib.InstallTestCA(); err != nil {
		panic(err)
	}
	code := m.Run()
	vlib.FlushStats()
	os.Exit(code)
}

func TestReplay(t *testing.T) {
	what, ran, err := vlib.RunReplay()
	if err != nil {
		t.Fatalf("replay of %s fails: %v", what, err)
	}
	if !ran {
		t.Skipf("nothing to replay in this binary (%s)", what)
	}
}

// ---------------------------------------------------------------------------------
// C11, writer side for real: the body written by cmd/feedbastion's own bastionClient.Update
// travels through a stub bastion (TLS 1.3 + h2 reverse connection) into the exported
// bastion.FeedBastion endpoint, whose parser hands (old, proof, checkpoint) to a recording
// witness. What arrives must be what was given to the writer.

// FBCall is what one bastionClient.Update call is given.
type FBCall struct {
	Origin int      `json:"origin"`
	Hashes [][]byte `json:"hashes"`
	Tail   []byte   `json:"tail"` // checkpoint = origin line + Tail
}

// FBCase is one use of feedbastion's client: one call, optionally with transport faults
// on its first attempts, or two calls that overlap inside the transport.
type FBCase struct {
	FBCall
	// Faults[i] is what the transport does to the i-th request it sees: "" (answer 200),
	// "502" | "503" | "504" (gateway answers), "reset-after-read", "reset-before-read".
	Faults []string `json:"faults,omitempty"`
	// B, if set, is a second call on the same client, started when the first call's request
	// has reached the transport but its body has not been read yet.
	B *FBCall `json:"b,omitempty"`
}

var fbOrigins = []string{"example.com/log", "rekor.example - 123", "лог.example/α"}

func (c *FBCall) cp() []byte { return append([]byte(fbOrigins[c.Origin]+"\n"), c.Tail...) }

type fbCall struct {
	id    string
	old   uint64
	cp    []byte
	proof [][]byte
}

type fbWitness struct {
	mu    sync.Mutex
	calls []fbCall
}

func (w *fbWitness) GetLatestCheckpoint(ctx context.Context, logID string) ([]byte, error) {
	return nil, os.ErrNotExist
}

func (w *fbWitness) Update(ctx context.Context, logID string, oldSize uint64, newCP []byte, proof [][]byte) ([]byte, error) {
	w.mu.Lock()
	defer w.mu.Unlock()
	c := fbCall{id: logID, old: oldSize, cp: append([]byte{}, newCP...)}
	for _, p := range proof {
		c.proof = append(c.proof, append([]byte{}, p...))
	}
	w.calls = append(w.calls, c)
	return nil, errors.New("recording witness: nothing is stored")
}

// fbTransport is the network under feedbastion's client: it records every body that is
// posted (the harness forwards them to the endpoint afterwards) and plays scripted faults.
type fbTransport struct {
	mu       sync.Mutex
	script   []string
	attempts int
	posted   map[int][]byte // fully read bodies by arrival index of their request
	gate     chan struct{} // if set: the first request waits here before its body is read
	arrived  chan int
}

func (t *fbTransport) RoundTrip(r *http.Request) (*http.Response, error) {
	t.mu.Lock()
	idx := t.attempts
	t.attempts++
	fault := ""
	if idx < len(t.script) {
		fault = t.script[idx]
	}
	gate := t.gate
	t.mu.Unlock()
	select {
	case t.arrived <- idx:
	default:
	}
	if idx == 0 && gate != nil {
		select {
		case <-gate:
		case <-time.After(10 * time.Second):
		}
	}
	if fault == "reset-before-read" {
		if r.Body != nil {
			r.Body.Close()
		}
		return nil, errors.New("stub network: connection reset before the request was sent")
	}
	var body []byte
	if r.Body != nil {
		body, _ = io.ReadAll(r.Body)
		r.Body.Close()
	}
	t.mu.Lock()
	if t.posted == nil {
		t.posted = map[int][]byte{}
	}
	t.posted[idx] = body
	t.mu.Unlock()
	switch fault {
	case "reset-after-read":
		return nil, errors.New("stub network: connection reset after the request was sent")
	case "502", "503", "504":
		code, _ := strconv.Atoi(fault)
		return &http.Response{StatusCode: code, Status: fault + " gateway trouble", Header: http.Header{}, Body: io.NopCloser(bytes.NewReader([]byte("try later"))), Request: r, ProtoMajor: 1, ProtoMinor: 1}, nil
	}
	return &http.Response{StatusCode: 200, Status: "200 OK", Header: http.Header{}, Body: io.NopCloser(bytes.NewReader([]byte("ok"))), Request: r, ProtoMajor: 1, ProtoMinor: 1}, nil
}

type fbFixture struct {
	stub *vlib.StubBastion
	w    *fbWitness
	ids  []string
	byID map[string]string
}

var (
	fbOnce sync.Once
	fbFix  *fbFixture
	fbErr  error
)

func getFB() (*fbFixture, error) {
	fbOnce.Do(func() {
		stub, err := vlib.NewStubBastion()
		if err != nil {
			fbErr = err
			return
		}
		f := &fbFixture{stub: stub, w: &fbWitness{}, byID: map[string]string{}}
		var logs []config.Log
		for i, o := range fbOrigins {
			lc, err := config.NewLog(o, vlib.NewKey("fblogkey", fmt.Sprintf("fblog%d", i)).VKey(), "http://unused.example/")
			if err != nil {
				fbErr = err
				return
			}
			logs = append(logs, lc)
			f.ids = append(f.ids, lc.ID)
			f.byID[lc.ID] = o
		}
		wk := vlib.NewKey("witness.example/w", "wit")
		seed := sha256.Sum256([]byte("verif bastion backend key"))
		go func() {
			_ = bastion.FeedBastion(context.Background(), bastion.Config{Addr: stub.Addr, Logs: logs, BastionKey: ed25519.NewKeyFromSeed(seed[:]),
				WitnessVerifier: vlib.WitnessKey{K: wk, Kind: vlib.WKCosig}.Verifier(), Limits: bastion.RequestLimits{TotalPerSecond: rate.Limit(1e9)}}, f.w)
		}()
		if err := stub.WaitConnected(120 * time.Second); err != nil {
			fbErr = err
			return
		}
		fbFix = f
	})
	return fbFix, fbErr
}

// deliver posts one recorded body to the real endpoint and checks what the witness gets.
func (f *fbFixture) deliver(body []byte, want *FBCall, what string) error {
	if len(body) > 16*1024 {
		return nil // over the endpoint's cap: refused whatever it contains
	}
	f.w.mu.Lock()
	f.w.calls = nil
	f.w.mu.Unlock()
	code, _, _, err := f.stub.Post(body)
	if err != nil {
		return fmt.Errorf("harness: post: %v", err)
	}
	f.w.mu.Lock()
	calls := f.w.calls
	f.w.mu.Unlock()
	cp := want.cp()
	if len(calls) != 1 {
		return fmt.Errorf("%s: the body written by feedbastion (%d hashes, %d checkpoint bytes given) does not reach the witness: endpoint answered %d, %d witness calls; body %q", what, len(want.Hashes), len(cp), code, len(calls), trunc(body))
	}
	got := calls[0]
	if got.id != f.ids[want.Origin] {
		return fmt.Errorf("%s: request filed under ID %s, want %s", what, got.id, f.ids[want.Origin])
	}
	if got.old != 0 {
		return fmt.Errorf("%s: old size read back as %d, feedbastion writes 0", what, got.old)
	}
	if !bytes.Equal(got.cp, cp) {
		return fmt.Errorf("%s: checkpoint given to feedbastion does not read back: given %q, read %q", what, trunc(cp), trunc(got.cp))
	}
	if len(got.proof) != len(want.Hashes) {
		return fmt.Errorf("%s: %d proof hashes given, %d read (body %q)", what, len(want.Hashes), len(got.proof), trunc(body))
	}
	for i := range want.Hashes {
		if !bytes.Equal(got.proof[i], want.Hashes[i]) {
			return fmt.Errorf("%s: proof hash %d: given %x, read %x", what, i, want.Hashes[i], got.proof[i])
		}
	}
	return nil
}

func runFB(c *FBCase) (bool, []string, error) {
	f, err := getFB()
	if err != nil {
		return false, nil, fmt.Errorf("harness: %v", err)
	}
	tr := &fbTransport{script: c.Faults, arrived: make(chan int, 16)}
	bc := &bastionClient{httpClient: &http.Client{Transport: tr}, url: "https://bastion.invalid/add-checkpoint", originByLogID: f.byID}
	cp := c.cp()
	nontrivial := len(c.Hashes) >= 1 && bytes.Contains(cp, []byte("\n\n"))
	cls := []string{fmt.Sprintf("hashes=%d", min(len(c.Hashes), 3))}
	faulted := false
	for _, fl := range c.Faults {
		if fl != "" {
			faulted = true
		}
	}
	if c.B == nil {
		_, uerr := bc.Update(context.Background(), f.ids[c.Origin], 0, cp, c.Hashes)
		if uerr != nil && !faulted {
			return nontrivial, cls, fmt.Errorf("harness: feedbastion's Update failed without a fault: %v", uerr)
		}
		if faulted {
			cls = append(cls, "transport-fault")
		}
		tr.mu.Lock()
		posted := tr.posted
		n := tr.attempts
		tr.mu.Unlock()
		if n == 0 {
			return nontrivial, cls, fmt.Errorf("feedbastion's Update made no request at all")
		}
		if n > 1 {
			cls = append(cls, "retried")
		}
		// every body that went out for this call must be the request, whole
		for i := 0; i < n; i++ {
			b, ok := posted[i]
			if !ok {
				continue // reset before the body was read
			}
			if err := f.deliver(b, &c.FBCall, fmt.Sprintf("request %d of %d for one Update", i+1, n)); err != nil {
				return nontrivial, cls, err
			}
		}
		return nontrivial, cls, nil
	}
	// two overlapping calls
	cls = append(cls, "overlapping-calls")
	tr.gate = make(chan struct{})
	var wg sync.WaitGroup
	wg.Add(1)
	go func() {
		defer wg.Done()
		_, _ = bc.Update(context.Background(), f.ids[c.Origin], 0, cp, c.Hashes)
	}()
	select {
	case <-tr.arrived:
	case <-time.After(10 * time.Second):
		close(tr.gate)
		wg.Wait()
		return false, cls, fmt.Errorf("%s the first call never reached the transport", vlib.InfraMarker)
	}
	wg.Add(1)
	go func() {
		defer wg.Done()
		_, _ = bc.Update(context.Background(), f.ids[c.B.Origin], 0, c.B.cp(), c.B.Hashes)
	}()
	overlapped := false
	select {
	case <-tr.arrived:
		overlapped = true
	case <-time.After(3 * time.Second):
		// a client that serialises its calls is fine: no overlap then
	}
	close(tr.gate)
	wg.Wait()
	tr.mu.Lock()
	posted := tr.posted
	tr.mu.Unlock()
	if len(posted) != 2 {
		return nontrivial, cls, fmt.Errorf("two Update calls posted %d bodies", len(posted))
	}
	if !overlapped {
		cls = append(cls, "client-serialised-the-calls")
	}
	// request 0 belongs to the first call (held before its body was read), request 1 to the second
	if err := f.deliver(posted[0], &c.FBCall, "first of two overlapping calls (its body was read after the second call had been built)"); err != nil {
		return true, cls, err
	}
	return true, cls, f.deliver(posted[1], c.B, "second of two overlapping calls")
}

func trunc(b []byte) string {
	if len(b) > 300 {
		return string(b[:300]) + "..."
	}
	return string(b)
}

func genFBCall(rt *rapid.T, label string) FBCall {
	c := FBCall{Origin: rapid.IntRange(0, len(fbOrigins)-1).Draw(rt, label+"origin")}
	n := rapid.IntRange(0, 64).Draw(rt, label+"nhashes")
	if vlib.Pct(rt, 30, label+"edge") {
		n = rapid.SampledFrom([]int{0, 1, 2, 31, 32, 33, 63, 64}).Draw(rt, label+"nedge")
	}
	for i := 0; i < n; i++ {
		l := 32
		if !rapid.Bool().Draw(rt, label+"h32") {
			l = rapid.IntRange(1, 64).Draw(rt, label+"hlen")
		}
		c.Hashes = append(c.Hashes, rapid.SliceOfN(rapid.Byte(), l, l).Draw(rt, label+"hash"))
	}
	switch rapid.IntRange(0, 3).Draw(rt, label+"tailkind") {
	case 0:
		c.Tail = []byte("5\nAAAAAAAAAAAAAAAAAAAAAAAAAAAAAAAAAAAAAAAAAAA=\n\n— k AAAAAAAAAA==\n")
	case 1:
		c.Tail = rapid.SliceOfN(rapid.Byte(), 0, 400).Draw(rt, label+"tailbytes")
	case 2:
		parts := rapid.SliceOfN(rapid.SampledFrom([]string{"\n", "\n\n", "\r\n", "\x00", "\xff\xfe", "old 5", "line", "AAAA", "— sig", " "}), 0, 14).Draw(rt, label+"tailparts")
		for _, p := range parts {
			c.Tail = append(c.Tail, p...)
		}
	default:
		c.Tail = bytes.Repeat([]byte("0123456789abcde\n"), rapid.IntRange(0, 500).Draw(rt, label+"taillines"))
	}
	return c
}

func TestC11FeedbastionWriter(t *testing.T) {
	st := vlib.StatsFor("C11", "writer", "requests written by cmd/feedbastion's own bastionClient.Update (0..64 hashes of 1..64 bytes; checkpoint = a configured origin line followed by arbitrary bytes incl. blank lines, CR, NUL, non-UTF-8; body within the endpoint's 16 KiB cap); 15% with transport faults on the first attempts (gateway answers, resets), 15% as two calls on one client overlapping inside the transport; EVERY body that leaves the client is delivered through a stub bastion into the exported FeedBastion endpoint with a recording witness: the (old size, proof, checkpoint) the witness receives must equal what that Update call was given; non-trivial = >=1 hash and a checkpoint containing a blank line, or overlapping calls; distinct by case hash")
	rapid.Check(t, func(rt *rapid.T) {
		c := &FBCase{FBCall: genFBCall(rt, "")}
		switch k := vlib.Uniform(rt, 20, "mode"); {
		case k < 3:
			n := rapid.IntRange(1, 3).Draw(rt, "nfaults")
			for i := 0; i < n; i++ {
				c.Faults = append(c.Faults, rapid.SampledFrom([]string{"502", "503", "504", "reset-after-read", "reset-before-read"}).Draw(rt, "fault"))
			}
		case k < 6:
			b := genFBCall(rt, "b_")
			if rapid.Bool().Draw(rt, "sameshape") {
				// same layout, other content: bodies of exactly the same length
				b = FBCall{Origin: c.Origin, Tail: bytes.ToUpper(append([]byte{}, c.Tail...))}
				for _, h := range c.Hashes {
					h2 := append([]byte{}, h...)
					h2[0] ^= 0x55
					b.Hashes = append(b.Hashes, h2)
				}
			}
			c.B = &b
		}
		nt, cls, err := runFB(c)
		b, _ := json.Marshal(c)
		st.Record(fmt.Sprintf("%x", vlib.LeafHash(b))[:16], nt, cls, vlib.SampleOf(c))
		if err != nil {
			vlib.SaveFailure("C11", "writer", c, err)
			rt.Fatalf("C11 violated: %v", err)
		}
	})
}

func init() {
	vlib.Replayers["C11/writer"] = func(raw json.RawMessage) error {
		var c FBCase
		if err := json.Unmarshal(raw, &c); err != nil {
			return err
		}
		_, _, err := runFB(&c)
		return err
	}
}
