//go:build verif

package main

import (
	"bytes"
	"context"
	"crypto/ed25519"
	"crypto/sha256"
	"encoding/json"
	"errors"
	"fmt"
	"io"
	"net/http"
	"os"
	"strconv"
	"sync"
	"testing"
	"time"

	"github.com/transparency-dev/witness/internal/config"
	"github.com/transparency-dev/witness/internal/feeder/bastion"
	"github.com/transparency-dev/witness/internal/verifh/vlib"
	"golang.org/x/time/rate"
	"pgregory.net/rapid"
)

func TestMain(m *testing.M) {
	vlib.InstallMetrics()
	vlib.QuietKlog()
	if err := vlib.InstallTestCA(); err != nil {
		panic(err)
	}
	code := m.Run()
	vlib.FlushStats()
	os.Exit(code)
}

func TestReplay(t *testing.T) {
	what, ran, err := vlib.RunReplay()
	if err != nil {
		t.Fatalf("replay of %s fails: %v", what, err)
	}
	if !ran {
		t.Skipf("nothing to replay in this binary (%s)", what)
	}
}

// ---------------------------------------------------------------------------------
// C11, writer side for real: the body written by cmd/feedbastion's own bastionClient.Update
// travels through a stub bastion (TLS 1.3 + h2 reverse connection) into the exported
// bastion.FeedBastion endpoint, whose parser hands (old, proof, checkpoint) to a recording
// witness. What arrives must be what was given to the writer.

// FBCase is one request written by feedbastion.
type FBCase struct {
	Origin int      `json:"origin"`
	Hashes [][]byte `json:"hashes"`
	Tail   []byte   `json:"tail"` // checkpoint = origin line + Tail
}

var fbOrigins = []string{"example.com/log", "rekor.example - 123", "лог.example/α"}

type fbCall struct {
	id    string
	old   uint64
	cp    []byte
	proof [][]byte
}

type fbWitness struct {
	mu    sync.Mutex
	calls []fbCall
}

func (w *fbWitness) GetLatestCheckpoint(ctx context.Context, logID string) ([]byte, error) {
	return nil, os.ErrNotExist
}

func (w *fbWitness) Update(ctx context.Context, logID string, oldSize uint64, newCP []byte, proof [][]byte) ([]byte, error) {
	w.mu.Lock()
	defer w.mu.Unlock()
	c := fbCall{id: logID, old: oldSize, cp: append([]byte{}, newCP...)}
	for _, p := range proof {
		c.proof = append(c.proof, append([]byte{}, p...))
	}
	w.calls = append(w.calls, c)
	return nil, errors.New("recording witness: nothing is stored")
}

// fbTransport forwards what feedbastion posts to the stub bastion's reverse connection.
type fbTransport struct {
	stub   *vlib.StubBastion
	mu     sync.Mutex
	bodies [][]byte
	codes  []int
}

func (t *fbTransport) RoundTrip(r *http.Request) (*http.Response, error) {
	var body []byte
	if r.Body != nil {
		body, _ = io.ReadAll(r.Body)
		r.Body.Close()
	}
	code, hdr, rb, err := t.stub.Post(body)
	if err != nil {
		return nil, err
	}
	t.mu.Lock()
	t.bodies = append(t.bodies, body)
	t.codes = append(t.codes, code)
	t.mu.Unlock()
	return &http.Response{StatusCode: code, Status: strconv.Itoa(code), Header: hdr, Body: io.NopCloser(bytes.NewReader(rb)), Request: r, ProtoMajor: 1, ProtoMinor: 1}, nil
}

type fbFixture struct {
	stub *vlib.StubBastion
	w    *fbWitness
	tr   *fbTransport
	bc   *bastionClient
	ids  []string
}

var (
	fbOnce sync.Once
	fbFix  *fbFixture
	fbErr  error
)

func getFB() (*fbFixture, error) {
	fbOnce.Do(func() {
		stub, err := vlib.NewStubBastion()
		if err != nil {
			fbErr = err
			return
		}
		f := &fbFixture{stub: stub, w: &fbWitness{}, tr: &fbTransport{stub: stub}}
		var logs []config.Log
		byID := map[string]string{}
		for i, o := range fbOrigins {
			lc, err := config.NewLog(o, vlib.NewKey("fblogkey", fmt.Sprintf("fblog%d", i)).VKey(), "http://unused.example/")
			if err != nil {
				fbErr = err
				return
			}
			logs = append(logs, lc)
			f.ids = append(f.ids, lc.ID)
			byID[lc.ID] = o
		}
		wk := vlib.NewKey("witness.example/w", "wit")
		seed := sha256.Sum256([]byte("verif bastion backend key"))
		go func() {
			_ = bastion.FeedBastion(context.Background(), bastion.Config{Addr: stub.Addr, Logs: logs, BastionKey: ed25519.NewKeyFromSeed(seed[:]),
				WitnessVerifier: vlib.WitnessKey{K: wk, Kind: vlib.WKCosig}.Verifier(), Limits: bastion.RequestLimits{TotalPerSecond: rate.Limit(1e9)}}, f.w)
		}()
		if err := stub.WaitConnected(40 * time.Second); err != nil {
			fbErr = err
			return
		}
		f.bc = &bastionClient{httpClient: &http.Client{Transport: f.tr}, url: "https://bastion.invalid/" + "add-checkpoint", originByLogID: byID}
		fbFix = f
	})
	return fbFix, fbErr
}

func runFB(c *FBCase) (bool, []string, error) {
	f, err := getFB()
	if err != nil {
		return false, nil, fmt.Errorf("harness: %v", err)
	}
	f.w.mu.Lock()
	f.w.calls = nil
	f.w.mu.Unlock()
	f.tr.mu.Lock()
	f.tr.bodies, f.tr.codes = nil, nil
	f.tr.mu.Unlock()
	cp := append([]byte(fbOrigins[c.Origin]+"\n"), c.Tail...)
	nontrivial := len(c.Hashes) >= 1 && bytes.Contains(cp, []byte("\n\n"))
	cls := fmt.Sprintf("hashes=%d", min(len(c.Hashes), 3))
	if _, err := f.bc.Update(context.Background(), f.ids[c.Origin], 0, cp, c.Hashes); err != nil {
		return nontrivial, []string{cls}, fmt.Errorf("harness: feedbastion's Update failed: %v", err)
	}
	f.tr.mu.Lock()
	bodies, codes := f.tr.bodies, f.tr.codes
	f.tr.mu.Unlock()
	if len(bodies) != 1 {
		return nontrivial, []string{cls}, fmt.Errorf("feedbastion sent %d requests, want 1", len(bodies))
	}
	if len(bodies[0]) > 16*1024 {
		return false, []string{"over-the-cap"}, nil
	}
	f.w.mu.Lock()
	calls := f.w.calls
	f.w.mu.Unlock()
	if len(calls) != 1 {
		return nontrivial, []string{cls}, fmt.Errorf("the body written by feedbastion (%d hashes, %d checkpoint bytes) did not reach the witness: endpoint answered %d, %d witness calls; body %q", len(c.Hashes), len(cp), codes[0], len(calls), trunc(bodies[0]))
	}
	got := calls[0]
	if got.id != f.ids[c.Origin] {
		return nontrivial, []string{cls}, fmt.Errorf("request filed under ID %s, want %s", got.id, f.ids[c.Origin])
	}
	if got.old != 0 {
		return nontrivial, []string{cls}, fmt.Errorf("old size read back as %d, feedbastion wrote 0", got.old)
	}
	if !bytes.Equal(got.cp, cp) {
		return nontrivial, []string{cls}, fmt.Errorf("checkpoint written by feedbastion does not read back: wrote %q, read %q", trunc(cp), trunc(got.cp))
	}
	if len(got.proof) != len(c.Hashes) {
		return nontrivial, []string{cls}, fmt.Errorf("wrote %d proof hashes, read %d (body %q)", len(c.Hashes), len(got.proof), trunc(bodies[0]))
	}
	for i := range c.Hashes {
		if !bytes.Equal(got.proof[i], c.Hashes[i]) {
			return nontrivial, []string{cls}, fmt.Errorf("proof hash %d: wrote %x, read %x", i, c.Hashes[i], got.proof[i])
		}
	}
	return nontrivial, []string{cls}, nil
}

func trunc(b []byte) string {
	if len(b) > 300 {
		return string(b[:300]) + "..."
	}
	return string(b)
}

func TestC11FeedbastionWriter(t *testing.T) {
	st := vlib.StatsFor("C11", "writer", "requests written by cmd/feedbastion's own bastionClient.Update (0..64 hashes of 1..64 bytes; checkpoint = a configured origin line followed by arbitrary bytes incl. blank lines, CR, NUL, non-UTF-8; body within the endpoint's 16 KiB cap) sent through a stub bastion into the exported FeedBastion endpoint with a recording witness: the (old size, proof, checkpoint) the witness receives must equal what the writer was given; non-trivial = >=1 hash and a checkpoint containing a blank line; distinct by case hash")
	rapid.Check(t, func(rt *rapid.T) {
		c := &FBCase{Origin: rapid.IntRange(0, len(fbOrigins)-1).Draw(rt, "origin")}
		n := rapid.IntRange(0, 64).Draw(rt, "nhashes")
		if vlib.Pct(rt, 30, "edge") {
			n = rapid.SampledFrom([]int{0, 1, 2, 31, 32, 33, 63, 64}).Draw(rt, "nedge")
		}
		for i := 0; i < n; i++ {
			l := 32
			if !rapid.Bool().Draw(rt, "h32") {
				l = rapid.IntRange(1, 64).Draw(rt, "hlen")
			}
			c.Hashes = append(c.Hashes, rapid.SliceOfN(rapid.Byte(), l, l).Draw(rt, "hash"))
		}
		switch rapid.IntRange(0, 3).Draw(rt, "tailkind") {
		case 0:
			c.Tail = []byte("5\nAAAAAAAAAAAAAAAAAAAAAAAAAAAAAAAAAAAAAAAAAAA=\n\n— k AAAAAAAAAA==\n")
		case 1:
			c.Tail = rapid.SliceOfN(rapid.Byte(), 0, 400).Draw(rt, "tailbytes")
		case 2:
			parts := rapid.SliceOfN(rapid.SampledFrom([]string{"\n", "\n\n", "\r\n", "\x00", "\xff\xfe", "old 5", "line", "AAAA", "— sig", " "}), 0, 14).Draw(rt, "tailparts")
			for _, p := range parts {
				c.Tail = append(c.Tail, p...)
			}
		default:
			c.Tail = bytes.Repeat([]byte("0123456789abcde\n"), rapid.IntRange(0, 500).Draw(rt, "taillines"))
		}
		nt, cls, err := runFB(c)
		b, _ := json.Marshal(c)
		st.Record(fmt.Sprintf("%x", vlib.LeafHash(b))[:16], nt, cls, vlib.SampleOf(c))
		if err != nil {
			vlib.SaveFailure("C11", "writer", c, err)
			rt.Fatalf("C11 violated: %v", err)
		}
	})
}

func init() {
	vlib.Replayers["C11/writer"] = func(raw json.RawMessage) error {
		var c FBCase
		if err := json.Unmarshal(raw, &c); err != nil {
			return err
		}
		_, _, err := runFB(&c)
		return err
	}
}
