#!/usr/bin/env python3
"""Writes MANIFEST.json from registry.py (single source of truth for the checks)."""
import json
import os
import sys

VERIF = os.path.dirname(os.path.abspath(__file__))
sys.path.insert(0, VERIF)
from registry import PROPS, NOT_APPLICABLE, HOOK_COMMITS  # noqa: E402

checks = []
for pid, m in sorted(PROPS.items()):
    checks.append({
        "property_id": pid,
        "quick_cmd": f"./check {pid} quick",
        "thorough_cmd": f"./check {pid} thorough",
        "evidence_file": f"/verif/evidence/{pid}.json",
        "replay_cmd_template": f"./check {pid} --replay {{path}}",
        "engine": "pbt",
        "level_claimed": {"category": m["level"], "text": m["level_text"], "design_ref": m.get("design_ref", f"DESIGN.md section 3, {pid}")},
        "level_note": m["level_note"],
        "technique": m["technique"],
    })

manifest = {
    "version": 1,
    "setup_cmd": "./setup.sh",
    "hooks": {
        "guard": "verif",
        "enable": "harness files carry //go:build verif and are compiled into the witness module with go test -c -tags verif -overlay (no file of /repo is replaced or added); the one piece of instrumentation inside a program of the repository, cmd/omniwitness reading its log configuration from the file named by VERIF_CONFIG_LOGS (C06 part 'binary'), is also a verif-tagged overlay file (/verif/harness/omnibin/hook.go, virtual path cmd/omniwitness/zz_verif_hook.go); no commits in /repo were needed for hooks",
        "baseline_off_cmd": "cd /repo && go test -mod=mod -vet=off -count=1 -timeout 25m ./...",
        "source_commits": HOOK_COMMITS,
        "add_only": True,
    },
    "engines": [{
        "name": "pbt",
        "path": "/verif/check",
        "serves_properties": sorted(PROPS),
        "kind_free_text": "property-based testing (pgregory.net/rapid v1.3.0: generated cases, state-machine histories, shrinking), exhaustive enumeration of small finite sub-domains, fault/crash/schedule injection through interface wrappers, native go fuzzing in the thorough tier; python3 driver shards, seeds, merges evidence",
    }],
    "checks": checks,
    "not_applicable": [{"property_id": k, "reason": v} for k, v in sorted(NOT_APPLICABLE.items())],
    "notes": "All checks are ./check <id> <tier>; VERIF_SEED selects the rapid seeds; known findings are listed in /verif/known_findings.txt; see DESIGN.md.",
}
json.dump(manifest, open(os.path.join(VERIF, "MANIFEST.json"), "w"), indent=1)
print("MANIFEST.json written:", len(checks), "checks,", len(NOT_APPLICABLE), "not applicable")
