#!/bin/sh
# Offline setup: warm the Go build cache for every harness binary (incl. -race).
set -e
cd "$(dirname "$0")"
export GOFLAGS=-mod=mod GOPROXY=off GOSUMDB=off GOTOOLCHAIN=local
exec ./check --build-all
